//! C10 - quantities without a reference unit never mix units silently.
use crate::amt::{self, A};
use crate::core::*;
use quantities::Quantity;
use serde_json::json;
use std::ops::{Add, Div, Sub};

pub fn collect(blocks: &mut Vec<Block>, setup: &mut Report) {
    crate::for_each_noref_type!(add_type, blocks, setup);
    crate::for_each_single_type!(add_single, blocks, setup);
}

/// a type with a single unit always reports that unit and does plain amount arithmetic
/// (the generated type has no comparison operators at all, so there is nothing to compare)
fn add_single<Q>(key: &str, blocks: &mut Vec<Block>, setup: &mut Report)
where
    Q: Quantity + QB + Add<Q, Output = Q> + Sub<Q, Output = Q> + Div<Q, Output = A>,
    Q::UnitType: UB,
{
    let Some(b) = bind_or_fail::<Q>(key, setup) else { return };
    setup.inc("types");
    setup.inc("single_unit_types");
    blocks.push(Block::new(format!("C10/{}/single", key), move |rep| {
        let key = b.tm.key.as_str();
        let mut alpha = amt::alphabet_v(tier());
        alpha.extend(amt::alphabet_s());
        let alpha = amt::dedup(alpha);
        let u = b.units[0];
        for &a in &alpha {
            for &bb in &alpha {
                rep.inc("states");
                let (qa, qb) = (Q::new(a, u), Q::new(bb, u));
                let mk_case = |op: &str| case(key, op, json!({"a": amt::show(a), "b": amt::show(bb)}));
                if qa.unit() != u {
                    rep.violation("C10/unit-accessor", mk_case("unit"), format!("{:?}", qa.unit()), format!("{:?}", u));
                }
                for (k, op) in ["+", "-", "/"].iter().enumerate() {
                    rep.inc("transitions");
                    let own = guard(|| match k {
                        0 => a + bb,
                        1 => a - bb,
                        _ => a / bb,
                    });
                    let got: Result<(Option<Q::UnitType>, A), String> = guard(|| match k {
                        0 => {
                            let r = qa + qb;
                            (Some(r.unit()), r.amount())
                        }
                        1 => {
                            let r = qa - qb;
                            (Some(r.unit()), r.amount())
                        }
                        _ => (None, qa / qb),
                    });
                    match (own, got) {
                        (Ok(o), Ok((gu, g))) => {
                            if !amt::same(o, g) {
                                rep.violation("C10/single-unit-not-amount-op", mk_case(op), amt::show(g), amt::show(o));
                            }
                            if gu.map(|x| x != u).unwrap_or(false) {
                                rep.violation("C10/unit", mk_case(op), format!("{:?}", gu), format!("{:?}", u));
                            }
                            rep.inc("single_unit_ops");
                            rep.inc("sensitive");
                        }
                        (Err(_), Err(_)) => rep.inc("amount_type_panics_mirrored"),
                        (Ok(o), Err(p)) => rep.violation("C10/panic", mk_case(op), format!("panic: {p}"), amt::show(o)),
                        (Err(p), Ok((_, g))) => {
                            rep.violation("C10/no-panic-where-amount-op-panics", mk_case(op), amt::show(g), format!("panic: {p}"))
                        }
                    }
                }
            }
        }
    }));
}

fn add_type<Q>(key: &str, blocks: &mut Vec<Block>, setup: &mut Report)
where
    Q: Quantity + QB + PartialEq + PartialOrd + Add<Q, Output = Q> + Sub<Q, Output = Q> + Div<Q, Output = A>,
    Q::UnitType: UB,
{
    let Some(b) = bind_or_fail::<Q>(key, setup) else { return };
    setup.inc("types");
    for iu in 0..b.n() {
        let bb = b.clone();
        blocks.push(Block::new(format!("C10/{}/{}", key, b.vname(iu)), move |rep| block::<Q>(bb, iu, rep)));
    }
}

fn block<Q>(b: Bind<Q>, iu: usize, rep: &mut Report)
where
    Q: Quantity + QB + PartialEq + PartialOrd + Add<Q, Output = Q> + Sub<Q, Output = Q> + Div<Q, Output = A>,
    Q::UnitType: UB,
{
    let key = b.tm.key.as_str();
    let mut alpha = amt::alphabet_v(tier());
    alpha.extend(amt::alphabet_s());
    let alpha = amt::dedup(alpha);
    let uu = b.units[iu];
    for iv in 0..b.n() {
        let uv = b.units[iv];
        let same_unit = iu == iv;
        for &a in &alpha {
            for &bb in &alpha {
                rep.inc("states");
                let qa = Q::new(a, uu);
                let qb = Q::new(bb, uv);
                let mk_case = |op: &str| case(key, op, json!({"a": show_q(a, b.vname(iu)), "b": show_q(bb, b.vname(iv))}));
                if qa.unit() != uu {
                    // single-unit types always report their unit; multi-unit types the stored one
                    rep.violation("C10/unit-accessor", mk_case("unit"), format!("{:?}", qa.unit()), format!("{:?}", uu));
                }
                // a value compared with ITSELF (one object on both sides) is compared like any two values
                if same_unit && amt::same(a, bb) {
                    rep.count("transitions", 3);
                    #[allow(clippy::eq_op)]
                    let own = guard(|| (qa == qa, qa != qa, PartialOrd::partial_cmp(&qa, &qa), <Q as Quantity>::eq(&qa, &qa)));
                    #[allow(clippy::eq_op)]
                    let want = (a == a, a != a, PartialOrd::partial_cmp(&a, &a), a == a);
                    match own {
                        Ok(got) if got == want => rep.inc("self_comparisons"),
                        Ok(got) => rep.violation("C10/equality/same-object", mk_case("q == q"), format!("{:?}", got), format!("{:?}", want)),
                        Err(p) => rep.violation("C10/panic", mk_case("q == q"), format!("panic: {p}"), format!("{:?}", want)),
                    }
                }
                // comparisons
                rep.count("transitions", 4);
                let cmp = guard(|| (qa == qb, qa != qb, PartialOrd::partial_cmp(&qa, &qb), qa < qb));
                // every relational form (operators and the PartialOrd methods they desugar to)
                rep.count("transitions", 6);
                let rel = guard(|| [qa <= qb, qa > qb, qa >= qb, PartialOrd::le(&qa, &qb), PartialOrd::gt(&qa, &qb), PartialOrd::ge(&qa, &qb), PartialOrd::lt(&qa, &qb)]);
                let want_rel = if same_unit { [a <= bb, a > bb, a >= bb, a <= bb, a > bb, a >= bb, a < bb] } else { [false; 7] };
                match rel {
                    Ok(r) if r == want_rel => rep.inc("relational_forms_ok"),
                    Ok(r) => rep.violation("C10/ordering/relational-forms", mk_case("<= > >= le gt ge lt"), format!("{:?}", r), format!("{:?}", want_rel)),
                    Err(p) => rep.violation("C10/panic", mk_case("<= > >="), format!("panic: {p}"), format!("{:?}", want_rel)),
                }
                match cmp {
                    Err(p) => rep.violation("C10/panic", mk_case("compare"), format!("panic: {p}"), "comparison results".into()),
                    Ok((eq, ne, pc, lt)) => {
                        let want_eq = same_unit && a == bb;
                        let want_pc = if same_unit { PartialOrd::partial_cmp(&a, &bb) } else { None };
                        let want_lt = same_unit && a < bb;
                        if eq != want_eq || ne == eq {
                            rep.violation("C10/equality", mk_case("=="), format!("== {eq}, != {ne}"), format!("== {want_eq}"));
                        }
                        if pc != want_pc {
                            rep.violation("C10/ordering", mk_case("partial_cmp"), format!("{:?}", pc), format!("{:?}", want_pc));
                        }
                        if lt != want_lt {
                            rep.violation("C10/ordering", mk_case("<"), format!("{lt}"), format!("{want_lt}"));
                        }
                        if !same_unit && amt::same(a, bb) {
                            rep.inc("equal_amounts_in_different_units");
                        }
                        rep.inc("sensitive");
                    }
                }
                // arithmetic
                for (k, op) in ["+", "-", "/"].iter().enumerate() {
                    rep.inc("transitions");
                    let own = guard(|| match k {
                        0 => a + bb,
                        1 => a - bb,
                        _ => a / bb,
                    });
                    let got: Result<(Option<Q::UnitType>, A), String> = guard(|| match k {
                        0 => {
                            let r = qa + qb;
                            (Some(r.unit()), r.amount())
                        }
                        1 => {
                            let r = qa - qb;
                            (Some(r.unit()), r.amount())
                        }
                        _ => (None, qa / qb),
                    });
                    if !same_unit {
                        match got {
                            Err(_) => rep.inc("documented_panics"),
                            Ok((_, g)) => rep.violation(
                                "C10/silent-unit-mixing",
                                mk_case(op),
                                amt::show(g),
                                "panic (different units of a quantity without reference unit)".into(),
                            ),
                        }
                        continue;
                    }
                    match (own, got) {
                        (Ok(o), Ok((gu, g))) => {
                            if !amt::same(o, g) {
                                rep.violation("C10/same-unit-not-amount-op", mk_case(op), amt::show(g), amt::show(o));
                            }
                            if let Some(gu) = gu {
                                if gu != uu {
                                    rep.violation("C10/unit", mk_case(op), format!("{:?}", gu), format!("{:?}", uu));
                                }
                            }
                            rep.inc("same_unit_ops");
                        }
                        (Err(_), Err(_)) => rep.inc("amount_type_panics_mirrored"),
                        (Ok(o), Err(p)) => rep.violation("C10/panic", mk_case(op), format!("panic: {p}"), amt::show(o)),
                        (Err(p), Ok((_, g))) => {
                            rep.violation("C10/no-panic-where-amount-op-panics", mk_case(op), amt::show(g), format!("panic: {p}"))
                        }
                    }
                }
            }
        }
    }
    rep.sample(json!({"type": key, "left unit": b.vname(iu), "pairs": alpha.len() * alpha.len(),
        "example": format!("{} {} == {} {}", amt::show(alpha[5]), b.vname(iu), amt::show(alpha[5]), b.vname((iu + 1) % b.n()))}));
}
