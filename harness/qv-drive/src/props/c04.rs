//! C04 - derived products and quotients preserve the physical value.
use super::common::*;
use super::derived::*;
use crate::amt::{self, A};
use crate::core::*;
use qv_model::calc::ErrVal;
use quantities::{HasRefUnit, LinearScaledUnit};
use serde_json::json;
use std::ops::{Div, Mul};

pub fn collect(blocks: &mut Vec<Block>, setup: &mut Report) {
    crate::for_each_operator!(fm, fd, blocks, setup);
}

#[macro_export]
macro_rules! derived_wrappers {
    ($fm:ident, $fd:ident, $prop:expr, $block:ident) => {
        fn $fm<L, X, Z>(lk: &str, xk: &str, zk: &str, blocks: &mut Vec<Block>, setup: &mut Report)
        where
            L: HasRefUnit + QB + Mul<X, Output = Z>,
            X: HasRefUnit + QB,
            Z: HasRefUnit + QB + Div<X, Output = L>,
            L::UnitType: LinearScaledUnit + UB,
            X::UnitType: LinearScaledUnit + UB,
            Z::UnitType: LinearScaledUnit + UB,
            for<'a> L: Mul<&'a X, Output = Z>,
            for<'a> &'a L: Mul<X, Output = Z>,
            for<'a> &'a L: Mul<&'a X, Output = Z>,
        {
            add_mul::<L, X, Z>(lk, xk, zk, $prop, $block::<L, X, Z>, blocks, setup);
        }
        fn $fd<L, X, Z>(lk: &str, xk: &str, zk: &str, blocks: &mut Vec<Block>, setup: &mut Report)
        where
            L: HasRefUnit + QB + Div<X, Output = Z>,
            X: HasRefUnit + QB,
            Z: HasRefUnit + QB + Mul<X, Output = L>,
            L::UnitType: LinearScaledUnit + UB,
            X::UnitType: LinearScaledUnit + UB,
            Z::UnitType: LinearScaledUnit + UB,
            for<'a> L: Div<&'a X, Output = Z>,
            for<'a> &'a L: Div<X, Output = Z>,
            for<'a> &'a L: Div<&'a X, Output = Z>,
        {
            add_div::<L, X, Z>(lk, xk, zk, $prop, $block::<L, X, Z>, blocks, setup);
        }
    };
}

derived_wrappers!(fm, fd, "C04", block);

fn block<L, X, Z>(c: OpCtx<L, X, Z>, iu: usize, rep: &mut Report)
where
    L: HasRefUnit + QB,
    X: HasRefUnit + QB,
    Z: HasRefUnit + QB,
    L::UnitType: LinearScaledUnit + UB,
    X::UnitType: LinearScaledUnit + UB,
    Z::UnitType: LinearScaledUnit + UB,
{
    let xs = amt::alphabet_v(tier());
    let ys = if thorough() { amt::alphabet_v(tier()) } else { amt::alphabet_small(tier()) };
    let (min_l, min_x, min_z) = (min_scale(&c.bl), min_scale(&c.bx), min_scale(&c.bz));
    let inv_op = if c.op == Op::Mul { Op::Div } else { Op::Mul };
    let ul = c.bl.units[iu];
    let ml = c.bl.um(iu);
    for ix in 0..c.bx.n() {
        let ux = c.bx.units[ix];
        let mx = c.bx.um(ix);
        for &x in &xs {
            for &y in &ys {
                rep.inc("states");
                rep.count("transitions", 4);
                let mk_case = || {
                    case(&c.name, c.op.sym(), json!({"a": show_q(x, c.bl.vname(iu)), "b": show_q(y, c.bx.vname(ix))}))
                };
                let (xr, yr) = (rat_of(x).unwrap(), rat_of(y).unwrap());
                let dom = derived_domain(c.op, &xr, ml, &min_l, &yr, mx, &min_x, &min_z);
                let (ql, qx) = (L::new(x, ul), X::new(y, ux));
                // the four ownership forms
                let res: Vec<Result<(Z::UnitType, A), String>> = c
                    .forms
                    .iter()
                    .map(|f| {
                        guard(|| {
                            let z = f(ql, qx);
                            (z.unit(), z.amount())
                        })
                    })
                    .collect();
                // the borrowed forms: counted when bit-identical to the owned form; judged below by value like it
                let mut forms_identical = true;
                for r in res.iter().skip(1) {
                    let same = match (&res[0], r) {
                        (Ok((u0, a0)), Ok((u1, a1))) => u0 == u1 && amt::same(*a0, *a1),
                        (Err(_), Err(_)) => true,
                        _ => false,
                    };
                    forms_identical &= same;
                }
                if forms_identical {
                    rep.inc("ownership_forms_bit_identical");
                }
                let exact_m = match dom {
                    Ok(m) => m,
                    Err(clause) => {
                        rep.inc(&format!("filtered_{clause}"));
                        if res[0].is_err() {
                            if amt::BACKEND_NAME == "f64" && clause != "zero_divisor" {
                                rep.violation("C04/panic", mk_case(), format!("{:?}", res[0].as_ref().err()), "no panic under f64".into());
                            } else {
                                rep.inc("out_of_domain_panics");
                            }
                        }
                        continue;
                    }
                };
                let (zu, za) = match &res[0] {
                    Ok(v) => *v,
                    Err(p) => {
                        rep.violation("C04/panic", mk_case(), format!("panic: {p}"), format!("magnitude {}", exact_m.show()));
                        continue;
                    }
                };
                let Some(iw) = c.bz.index_of(zu) else {
                    rep.violation("C04/result-unit", mk_case(), format!("{:?}", zu), "a unit of the result quantity".into());
                    continue;
                };
                let mw = c.bz.um(iw);
                let (xe, ye) = (ErrVal::exact(xr.clone()), ErrVal::exact(yr.clone()));
                let Some(spec) = derived_spec(c.op, &xe, ml, &ye, mx, mw) else {
                    rep.inc("no_spec");
                    continue;
                };
                rep.inc("value_checked");
                let obs = rat_of(za);
                let ok = obs.as_ref().map(|o| spec.within(o)).unwrap_or(false);
                // every borrowed form that is not bit-identical to the owned one must itself be a value of the result
                // type with the right magnitude
                if !forms_identical {
                    for (k, r) in res.iter().enumerate().skip(1) {
                        let good = match r {
                            Ok((u, a)) => c.bz.index_of(*u).and_then(|i| derived_spec(c.op, &xe, ml, &ye, mx, c.bz.um(i)))
                                .map(|sp| rat_of(*a).map(|o| sp.within(&o)).unwrap_or(false)).unwrap_or(false),
                            Err(_) => false,
                        };
                        if !good {
                            rep.violation("C04/borrowed-form", mk_case(), format!("form {}: {:?}", k, r.as_ref().map(|(u, a)| (*u, amt::show(*a)))), format!("{} +- {:e} {} (form 0: {} {})", spec.v.show(), spec.tol(), c.bz.vname(iw), amt::show(za), c.bz.vname(iw)));
                        }
                    }
                }
                if !ok {
                    rep.violation(
                        "C04/magnitude",
                        mk_case(),
                        format!("{} {}", amt::show(za), c.bz.vname(iw)),
                        format!("{} +- {:e} {} (magnitude {} in reference units)", spec.v.show(), spec.tol(), c.bz.vname(iw), exact_m.show()),
                    );
                    continue;
                }
                if !spec.v.is_zero() && spec.rel_tol() <= SENSITIVE_REL {
                    rep.inc("sensitive");
                    if ix == 0 && rep.get("sensitive") % 97 == 1 {
                        rep.sample(json!({"op": c.name, "a": show_q(x, c.bl.vname(iu)), "b": show_q(y, c.bx.vname(ix)),
                            "observed": format!("{} {}", amt::show(za), c.bz.vname(iw)), "exact amount": spec.v.show(), "tolerance": spec.tol()}));
                    }
                }
                // depth 2: the inverse operator brings the left operand's magnitude back
                if amt::is_zero(y) {
                    continue;
                }
                let dom2 = derived_domain(inv_op, &spec.v, mw, &min_z, &yr, mx, &min_x, &min_l);
                let back = guard(|| {
                    let l2 = (c.inv)(Z::new(za, zu), qx);
                    (l2.unit(), l2.amount())
                });
                rep.inc("transitions");
                rep.inc("round_trips");
                match (dom2, back) {
                    (Ok(_), Ok((lu, la))) => {
                        let Some(il) = c.bl.index_of(lu) else {
                            rep.violation("C04/result-unit", mk_case(), format!("{:?}", lu), "a unit of the left operand's quantity".into());
                            continue;
                        };
                        let spec2 = derived_spec(inv_op, &spec, mw, &ye, mx, c.bl.um(il));
                        match (spec2, rat_of(la)) {
                            (Some(s2), Some(o2)) => {
                                rep.inc("round_trips_checked");
                                if !s2.within(&o2) {
                                    rep.violation(
                                        "C04/round-trip",
                                        mk_case(),
                                        format!("(a {} b) {} b = {} {}", c.op.sym(), inv_op.sym(), amt::show(la), c.bl.vname(il)),
                                        format!("{} +- {:e} {}", s2.v.show(), s2.tol(), c.bl.vname(il)),
                                    );
                                }
                            }
                            _ => rep.inc("no_spec"),
                        }
                    }
                    (Ok(_), Err(p)) => rep.violation("C04/panic", mk_case(), format!("inverse operation panicked: {p}"), "the left operand's magnitude".into()),
                    (Err(clause), r) => {
                        rep.inc(&format!("filtered_round_trip_{clause}"));
                        if r.is_err() && amt::BACKEND_NAME == "f64" {
                            rep.violation("C04/panic", mk_case(), format!("inverse operation panicked: {:?}", r.err()), "no panic under f64".into());
                        }
                    }
                }
            }
        }
    }
}
