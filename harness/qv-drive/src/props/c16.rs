//! C16 - the SI prefix table is a consistent bijection.
use crate::core::*;
use quantities::SIPrefix;
use serde_json::json;
use std::collections::BTreeSet;

pub fn collect(blocks: &mut Vec<Block>, _setup: &mut Report) {
    blocks.push(Block::new("C16/table".into(), table));
    blocks.push(Block::new("C16/from_exp".into(), from_exp));
    blocks.push(Block::new("C16/from_abbr".into(), from_abbr));
}

fn kase(op: &str, arg: serde_json::Value) -> serde_json::Value {
    case("SIPrefix", op, arg)
}

fn impl_prefixes() -> Vec<SIPrefix> {
    SIPrefix::iter().copied().collect()
}

fn table(rep: &mut Report) {
    let model = &ctx().model.prefixes;
    let got = impl_prefixes();
    rep.count("states", got.len() as u64);
    // iteration: every prefix once, strictly increasing exponent, exactly the brochure's table
    let got_names: Vec<String> = got.iter().map(|p| format!("{:?}", p)).collect();
    let want_names: Vec<String> = model.iter().map(|p| p.konst.clone()).collect();
    rep.inc("transitions");
    if got_names != want_names {
        rep.violation("C16/iteration", kase("iter", json!({})), format!("{:?}", got_names), format!("{:?}", want_names));
    }
    // consumed from both ends in every front/back schedule of the form F^i B^j F^*, its mirror and the alternations
    rep.inc("transitions");
    match guard(|| super::common::both_ends_schedules(|| SIPrefix::iter().copied(), &got)) {
        Ok(Ok(n)) => rep.count("iteration_schedules", n),
        Ok(Err(e)) => rep.violation("C16/iteration/both-ends", kase("iter: next / next_back", json!({})), e, "every prefix exactly once".into()),
        Err(p) => rep.violation("C16/iteration/both-ends", kase("iter: next / next_back", json!({})), format!("panic: {p}"), "every prefix exactly once".into()),
    }
    for w in got.windows(2) {
        if w[0].exp() >= w[1].exp() {
            rep.violation("C16/iteration-order", kase("iter", json!({})), format!("{:?} before {:?}", w[0], w[1]), "strictly increasing exponents".into());
        }
    }
    for p in &got {
        let name = format!("{:?}", p);
        rep.count("transitions", 5);
        let Some(m) = model.iter().find(|m| m.konst == name) else {
            rep.violation("C16/unknown-prefix", kase("iter", json!({"prefix": name})), name.clone(), "a prefix of the SI brochure".into());
            continue;
        };
        rep.inc("sensitive");
        if p.name() != m.name || p.abbr() != m.abbr || p.exp() != m.exp {
            rep.violation(
                "C16/attributes",
                kase("name/abbr/exp", json!({"prefix": name})),
                format!("{:?} {:?} {}", p.name(), p.abbr(), p.exp()),
                format!("{:?} {:?} {}", m.name, m.abbr, m.exp),
            );
        }
        if SIPrefix::from_exp(p.exp()) != Some(*p) {
            rep.violation("C16/round-trip-exp", kase("from_exp(exp())", json!({"prefix": name})), format!("{:?}", SIPrefix::from_exp(p.exp())), name.clone());
        }
        if SIPrefix::from_abbr(p.abbr()) != Some(*p) {
            rep.violation("C16/round-trip-abbr", kase("from_abbr(abbr())", json!({"prefix": name})), format!("{:?}", SIPrefix::from_abbr(p.abbr())), name.clone());
        }
    }
    // pairwise distinct names, abbreviations, exponents
    let names: BTreeSet<&str> = got.iter().map(|p| p.name()).collect();
    let abbrs: BTreeSet<&str> = got.iter().map(|p| p.abbr()).collect();
    let exps: BTreeSet<i8> = got.iter().map(|p| p.exp()).collect();
    if names.len() != got.len() || abbrs.len() != got.len() || exps.len() != got.len() {
        rep.violation("C16/not-injective", kase("iter", json!({})), format!("{} names, {} abbreviations, {} exponents", names.len(), abbrs.len(), exps.len()), format!("{} each", got.len()));
    }
    rep.sample(json!({"iter": got_names}));
}

fn from_exp(rep: &mut Report) {
    let model = &ctx().model.prefixes;
    for e in i8::MIN..=i8::MAX {
        rep.inc("states");
        rep.inc("transitions");
        let got = guard(|| SIPrefix::from_exp(e).map(|p| format!("{:?}", p)));
        let want = model.iter().find(|m| m.exp == e).map(|m| m.konst.clone());
        if want.is_some() {
            rep.inc("sensitive");
        }
        match got {
            Ok(g) if g == want => {}
            Ok(g) => rep.violation("C16/from_exp", kase("from_exp", json!({"exp": e})), format!("{:?}", g), format!("{:?}", want)),
            Err(p) => rep.violation("C16/panic", kase("from_exp", json!({"exp": e})), format!("panic: {p}"), format!("{:?}", want)),
        }
    }
    rep.sample(json!({"from_exp": "all 256 values of i8"}));
}

fn from_abbr(rep: &mut Report) {
    let model = &ctx().model.prefixes;
    // alphabet: every character of every abbreviation, its case-swapped forms, blank, 'u' and the
    // Greek mu (U+03BC) that looks like the micro sign (U+00B5)
    let mut chars: BTreeSet<char> = BTreeSet::new();
    for m in model {
        for c in m.abbr.chars() {
            chars.insert(c);
            chars.extend(c.to_lowercase());
            chars.extend(c.to_uppercase());
        }
    }
    chars.extend([' ', 'u', '\u{03bc}', '\u{00b5}', 'x', '0']);
    // look-alikes by truncation: code points that agree with an abbreviation character in their low byte
    // (a lookup table indexed by `c as u8`) or low 7 bits
    let base: Vec<char> = model.iter().flat_map(|m| m.abbr.chars()).collect();
    for c in base {
        for off in [0x80u32, 0x100, 0x300, 0x2000, 0x10000] {
            if let Some(x) = char::from_u32(c as u32 + off) {
                chars.insert(x);
            }
        }
    }
    let chars: Vec<char> = chars.into_iter().collect();
    let mut inputs: Vec<String> = vec![String::new()];
    for &a in &chars {
        inputs.push(a.to_string());
        for &b in &chars {
            inputs.push([a, b].iter().collect());
        }
    }
    // every abbreviation extended by one character on either side, and every concatenation of two abbreviations
    // (a lookup that matches on a prefix or suffix of its input)
    for m in model {
        for &c in &chars {
            inputs.push(format!("{}{}", m.abbr, c));
            inputs.push(format!("{}{}", c, m.abbr));
        }
        for m2 in model {
            inputs.push(format!("{}{}", m.abbr, m2.abbr));
        }
    }
    if thorough() {
        for &a in &chars {
            for &b in &chars {
                for &c in &chars {
                    inputs.push([a, b, c].iter().collect());
                }
            }
        }
    }
    inputs.sort();
    inputs.dedup();
    rep.count("alphabet_chars", chars.len() as u64);
    for s in &inputs {
        rep.inc("states");
        rep.inc("transitions");
        let got = guard(|| SIPrefix::from_abbr(s).map(|p| format!("{:?}", p)));
        let want = model.iter().find(|m| &m.abbr == s).map(|m| m.konst.clone());
        if want.is_some() {
            rep.inc("sensitive");
        }
        match got {
            Ok(g) if g == want => {}
            Ok(g) => rep.violation("C16/from_abbr", kase("from_abbr", json!({"abbr": s})), format!("{:?}", g), format!("{:?}", want)),
            Err(p) => rep.violation("C16/panic", kase("from_abbr", json!({"abbr": s})), format!("panic: {p}"), format!("{:?}", want)),
        }
    }
    rep.sample(json!({"from_abbr inputs": inputs.len(), "alphabet": chars.iter().collect::<String>()}));
}
