//! C03 - sum, difference and ratio of like quantities honour units.
use super::common::*;
use crate::amt::{self, A};
use crate::core::*;
use qv_model::calc::{convert_spec_ev, ErrVal};
use quantities::{HasRefUnit, LinearScaledUnit};
use serde_json::json;
use std::collections::HashSet;
use std::ops::{Add, Div, Sub};

pub fn collect(blocks: &mut Vec<Block>, setup: &mut Report) {
    crate::for_each_ref_type!(add_type, blocks, setup);
}

pub trait Arith: Add<Self, Output = Self> + Sub<Self, Output = Self> + Div<Self, Output = A> + Sized {}
impl<T: Add<T, Output = T> + Sub<T, Output = T> + Div<T, Output = A>> Arith for T {}

fn add_type<Q>(key: &str, blocks: &mut Vec<Block>, setup: &mut Report)
where
    Q: HasRefUnit + QB + Arith,
    Q::UnitType: LinearScaledUnit + UB,
{
    let Some(b) = bind_or_fail::<Q>(key, setup) else { return };
    setup.inc("types");
    for iu in 0..b.n() {
        let bb = b.clone();
        blocks.push(Block::new(format!("C03/{}/{}", key, b.vname(iu)), move |rep| block::<Q>(bb, iu, rep)));
    }
}

fn block<Q>(b: Bind<Q>, iu: usize, rep: &mut Report)
where
    Q: HasRefUnit + QB + Arith,
    Q::UnitType: LinearScaledUnit + UB,
{
    let v_alpha = amt::alphabet_v(tier());
    let small = amt::alphabet_small(tier());
    let specials = amt::alphabet_s();
    let mut visited: HashSet<(i128, i32)> = HashSet::new();
    let mut frontier: Vec<A> = Vec::new();
    for &a in v_alpha.iter().chain(specials.iter()) {
        if visited.insert(amt::key(a)) {
            frontier.push(a);
        }
    }
    let depth = 2;
    // types with more than 24 units (thorough: more than 30): the right operand's unit ranges over the left one, the reference unit,
    // the neighbour, the smallest, the largest and one scattered unit instead of all of them
    let n = b.n();
    let wide = if thorough() { n <= 30 } else { n <= 24 };
    let r0 = b.tm.ref_index().unwrap_or(0);
    let fb_a: Vec<A> = if thorough() { small.clone() } else { vec![amt::parse("1"), amt::parse("17.4")] };
    let fb_b: Vec<A> = vec![amt::parse("1"), amt::parse("0.37")];
    for level in 0..depth {
        let mut next = Vec::new();
        for &a in &frontier {
            rep.inc("states");
            for iv in 0..b.n() {
                if !wide && !(iv == iu || iv == r0 || iv == (iu + 1) % n || iv == 0 || iv == n - 1 || iv == (iu * 7 + 3) % n) {
                    continue;
                }
                // right operands: level 0: V u S u the amounts cancelling / equalling a in v; deeper: the small alphabet
                let mut bs: Vec<A> = if level == 0 { v_alpha.clone() } else { small.clone() };
                if level == 0 {
                    bs.extend(specials.iter().copied());
                    for p in same_magnitude_partners(a, b.um(iv), b.um(iu), 1) {
                        bs.push(p);
                        bs.push(amt::neg(p));
                    }
                }
                for bb in amt::dedup(bs) {
                    let res = step::<Q>(&b, iu, iv, a, bb, level, rep);
                    // feed sums back as left operands ("start from non-initial states"); the feedback set is
                    // kept small: a from fb_a, b from {1, 0.37}, every unit
                    if level + 1 < depth && fb_a.iter().any(|x| amt::same(*x, a)) && fb_b.iter().any(|x| amt::same(*x, bb)) {
                        if let Some(s) = res[0] {
                            if amt::is_finite(s) && visited.insert(amt::key(s)) {
                                next.push(s);
                            }
                        }
                    }
                }
            }
        }
        frontier = next;
    }
}

/// a[u] (+,-,/) b[v]; returns the amounts of sum and difference for the closure
fn step<Q>(b: &Bind<Q>, iu: usize, iv: usize, a: A, bb: A, level: usize, rep: &mut Report) -> [Option<A>; 2]
where
    Q: HasRefUnit + QB + Arith,
    Q::UnitType: LinearScaledUnit + UB,
{
    let key = b.tm.key.as_str();
    let (uu, uv) = (b.units[iu], b.units[iv]);
    let (mu, mv) = (b.um(iu), b.um(iv));
    let same_unit = iu == iv;
    let (ar, br) = (rat_of(a), rat_of(bb));
    // specification: b converted into a's unit, then the amount operation
    let spec_b = match (&ar, &br) {
        (Some(x), Some(y)) if in_domain(x) => conv_spec_in_domain(y, mv, mu),
        _ => None,
    };
    let mut out = [None, None];
    // every operation through both entry points: the operator and the trait method it forwards to
    for (k, op) in ["+", "-", "/", "HasRefUnit::add", "HasRefUnit::sub", "HasRefUnit::div"].iter().enumerate() {
        let via_method = k >= 3;
        let k = k % 3;
        if via_method && level > 0 {
            continue;
        }
        rep.inc("transitions");
        let mk_case = || case(key, op, json!({"a": show_q(a, b.vname(iu)), "b": show_q(bb, b.vname(iv))}));
        let qa = Q::new(a, uu);
        let qb = Q::new(bb, uv);
        // what the amount type itself does with the two amounts (same-unit clause, and "does it panic")
        let own = guard(|| match k {
            0 => a + bb,
            1 => a - bb,
            _ => a / bb,
        });
        let got: Result<(Option<Q::UnitType>, A), String> = guard(|| match (k, via_method) {
            (0, false) => {
                let r = qa + qb;
                (Some(r.unit()), r.amount())
            }
            (1, false) => {
                let r = qa - qb;
                (Some(r.unit()), r.amount())
            }
            (_, false) => (None, qa / qb),
            (0, true) => {
                let r = <Q as HasRefUnit>::add(qa, qb);
                (Some(r.unit()), r.amount())
            }
            (1, true) => {
                let r = <Q as HasRefUnit>::sub(qa, qb);
                (Some(r.unit()), r.amount())
            }
            (_, true) => (None, <Q as HasRefUnit>::div(qa, qb)),
        });
        if same_unit {
            rep.inc("same_unit_cases");
            match (&own, &got) {
                (Ok(o), Ok((u, g))) => {
                    if !amt::same(*o, *g) {
                        rep.violation("C03/same-unit-not-amount-op", mk_case(), amt::show(*g), amt::show(*o));
                    }
                    if let Some(u) = u {
                        if *u != uu {
                            rep.violation("C03/unit", mk_case(), format!("{:?}", u), format!("{:?}", uu));
                        }
                    }
                    if k < 2 && !via_method {
                        out[k] = Some(*g);
                    }
                }
                (Err(_), Err(_)) => rep.inc("amount_type_panics_mirrored"),
                (Ok(o), Err(p)) => rep.violation("C03/panic", mk_case(), format!("panic: {p}"), amt::show(*o)),
                (Err(p), Ok((_, g))) => {
                    rep.violation("C03/no-panic-where-amount-op-panics", mk_case(), amt::show(*g), format!("panic: {p}"))
                }
            }
            continue;
        }
        // cross-unit
        let spec: Option<ErrVal> = match (&spec_b, &ar, &br) {
            (Some(sb), Some(x), Some(y)) => {
                let xa = ErrVal::exact(x.clone());
                match k {
                    0 => Some(xa.add(sb, BE)),
                    1 => Some(xa.sub(sb, BE)),
                    _ => {
                        if y.is_zero() {
                            None
                        } else {
                            // a / conv(b -> u)  and  conv(a -> v) / b
                            let o1 = xa.div(sb, BE);
                            let o2 = conv_spec_in_domain(x, mu, mv).and_then(|sa| sa.div(&ErrVal::exact(y.clone()), BE));
                            match (o1, o2) {
                                (Some(p), Some(q)) => Some(p.widen(&q)),
                                _ => None,
                            }
                        }
                    }
                }
            }
            _ => None,
        }
        .filter(|s| in_domain(&s.v));
        let (ru, g) = match got {
            Ok(x) => x,
            Err(p) => {
                if spec.is_some() || amt::BACKEND_NAME == "f64" {
                    rep.violation("C03/panic", mk_case(), format!("panic: {p}"), "a value".into());
                } else {
                    rep.inc("out_of_domain_panics");
                }
                continue;
            }
        };
        if let Some(u) = ru {
            if u != uu {
                rep.violation("C03/unit", mk_case(), format!("{:?}", u), format!("{:?}", uu));
            }
        }
        if k < 2 && !via_method {
            out[k] = Some(g);
        }
        match (&spec, rat_of(g)) {
            (Some(spec), Some(obs)) => {
                rep.inc("value_checked");
                if !spec.within(&obs) {
                    rep.violation(
                        match k {
                            0 => "C03/sum-magnitude",
                            1 => "C03/difference-magnitude",
                            _ => "C03/ratio",
                        },
                        mk_case(),
                        amt::show(g),
                        format!("{} +- {:e}", spec.v.show(), spec.tol()),
                    );
                } else if level == 0 && scales_differ(mu, mv) && !spec.v.is_zero() && spec.rel_tol() <= SENSITIVE_REL {
                    rep.inc("sensitive");
                    if k == 0 && iv == iu + 1 {
                        rep.sample(json!({"type": key, "op": op, "a": show_q(a, b.vname(iu)), "b": show_q(bb, b.vname(iv)),
                            "observed": amt::show(g), "exact": spec.v.show(), "tolerance": spec.tol()}));
                    }
                }
            }
            (Some(spec), None) => {
                rep.violation("C03/non-finite-result", mk_case(), amt::show(g), format!("{} +- {:e}", spec.v.show(), spec.tol()))
            }
            _ => rep.inc("out_of_domain"),
        }
        let _ = convert_spec_ev;
    }
    out
}
