//! C07 - catalogue units carry their defined scales, prefixes and symbols.
use crate::amt;
use crate::core::*;
use qv_model::{BigInt, Rat};
use quantities::{HasRefUnit, LinearScaledUnit, Quantity, Unit};
use serde_json::json;

pub fn collect(blocks: &mut Vec<Block>, setup: &mut Report) {
    crate::for_each_ref_type!(add_ref, blocks, setup);
    crate::for_each_noref_type!(add_noref, blocks, setup);
    crate::for_each_single_type!(add_noref, blocks, setup);
}

fn universe_violation(key: &str, e: String, setup: &mut Report) {
    setup.violation("C07/universe", case(key, "iter_units", json!({})), e, "exactly the units of the definition table".into());
}

fn check_names<Q: Quantity>(b: &Bind<Q>, rep: &mut Report)
where
    Q::UnitType: UB,
{
    let key = b.tm.key.as_str();
    for i in 0..b.n() {
        let (u, m) = (b.units[i], b.um(i));
        rep.inc("states");
        rep.count("transitions", 3);
        rep.inc("sensitive");
        let mk = |what: &str| case(key, what, json!({"unit": m.variant}));
        match guard(|| (u.name(), u.symbol(), u.si_prefix().map(|p| format!("{:?}", p)))) {
            Err(p) => rep.violation("C07/panic", mk("name/symbol/si_prefix"), format!("panic: {p}"), "attributes".into()),
            Ok((name, sym, prefix)) => {
                if name != m.name {
                    rep.violation("C07/name", mk("name"), format!("{:?}", name), format!("{:?}", m.name));
                }
                if sym != m.sym {
                    rep.violation("C07/symbol", mk("symbol"), format!("{:?}", sym), format!("{:?}", m.sym));
                }
                if prefix != m.prefix {
                    rep.violation("C07/si-prefix", mk("si_prefix"), format!("{:?}", prefix), format!("{:?}", m.prefix));
                }
            }
        }
    }
}

fn add_noref<Q>(key: &str, blocks: &mut Vec<Block>, setup: &mut Report)
where
    Q: Quantity + QB,
    Q::UnitType: UB,
{
    match bind::<Q>(key) {
        Err(e) => universe_violation(key, e, setup),
        Ok(b) => {
            setup.inc("types");
            setup.count("units", b.n() as u64);
            blocks.push(Block::new(format!("C07/{key}"), move |rep| check_names(&b, rep)));
        }
    }
}

fn add_ref<Q>(key: &str, blocks: &mut Vec<Block>, setup: &mut Report)
where
    Q: HasRefUnit + QB,
    Q::UnitType: LinearScaledUnit + UB,
{
    match bind::<Q>(key) {
        Err(e) => universe_violation(key, e, setup),
        Ok(b) => {
            setup.inc("types");
            setup.count("units", b.n() as u64);
            if b.tm.universe == "main" || b.tm.universe == "astro" {
                setup.count("catalogue_units", b.n() as u64);
            }
            blocks.push(Block::new(format!("C07/{key}"), move |rep| {
                check_names(&b, rep);
                check_scales(&b, rep);
            }));
        }
    }
}

fn pow10(e: i32) -> Rat {
    if e >= 0 {
        Rat::from_int(BigInt::pow10(e as u32))
    } else {
        Rat::new(BigInt::one(), BigInt::pow10((-e) as u32))
    }
}

fn check_scales<Q>(b: &Bind<Q>, rep: &mut Report)
where
    Q: HasRefUnit + QB,
    Q::UnitType: LinearScaledUnit + UB,
{
    let key = b.tm.key.as_str();
    let mut reported: Vec<Option<Rat>> = Vec::new();
    for i in 0..b.n() {
        let (u, m) = (b.units[i], b.um(i));
        let want = m.scale.as_ref().unwrap();
        let mk = || case(key, "scale", json!({"unit": m.variant, "definition": want.show()}));
        rep.inc("transitions");
        let s = match guard(|| u.scale()) {
            Ok(s) => s,
            Err(p) => {
                rep.violation("C07/panic", mk(), format!("panic: {p}"), want.show());
                reported.push(None);
                continue;
            }
        };
        let got = amt::to_rat(s);
        reported.push(got.clone());
        let Some(got) = got else {
            rep.violation("C07/scale", mk(), amt::show(s), want.show());
            continue;
        };
        if m.terminating {
            // exactly the definition (Decimal) / the correctly rounded double of the definition (f64)
            let lit = want.to_decimal_string(40).expect("terminating");
            let exact_in_type = amt::parse(&lit);
            rep.inc("exact_scale_checks");
            if !(s == exact_in_type) {
                rep.violation("C07/scale", mk(), amt::show(s), format!("{} = {}", lit, amt::show(exact_in_type)));
            }
            if amt::BACKEND_NAME == "dec" && !got.eq(want) {
                rep.violation("C07/scale", mk(), amt::show(s), lit);
            }
        } else {
            // not a terminating decimal (or irrational): to the precision of the amount type
            rep.inc("inexact_scale_checks");
            let diff = got.sub(want).abs();
            let tol = want.abs().mul(&Rat::parse("1e-15").unwrap());
            if diff.gt(&tol) {
                rep.violation("C07/scale", mk(), amt::show(s), format!("{} +- 1e-15 relative", want.show()));
            }
        }
        if Some(i) == b.tm.ref_index() {
            rep.inc("ref_unit_checks");
            if !(s == amt::parse("1")) {
                rep.violation("C07/ref-unit-scale", mk(), amt::show(s), "1".into());
            }
            let is_ref = guard(|| (u.is_ref_unit(), <Q as HasRefUnit>::REF_UNIT == u, <Q::UnitType as LinearScaledUnit>::REF_UNIT == u));
            if is_ref != Ok((true, true, true)) {
                rep.violation("C07/ref-unit", mk(), format!("{:?}", is_ref), "is_ref_unit and both REF_UNIT constants name the declared reference unit".into());
            }
        }
    }
    // SI prefixes mutually consistent: S_u / S_v == 10^(e_u - e_v), exactly.  Exponents are the ones the
    // implementation reports.  Decimal: on the reported values; f64: the reported value must be the
    // correctly rounded literal (checked above), so the relation is checked on the literals' exact values.
    let catalogue = b.tm.universe == "main" || b.tm.universe == "astro";
    for i in 0..b.n() {
        for j in 0..b.n() {
            if i == j || !catalogue {
                continue;
            }
            let (pi, pj) = match guard(|| (b.units[i].si_prefix().map(|p| p.exp()), b.units[j].si_prefix().map(|p| p.exp()))) {
                Ok((Some(x), Some(y))) => (x, y),
                _ => continue,
            };
            rep.inc("prefix_pairs");
            rep.inc("transitions");
            let (si, sj) = if amt::BACKEND_NAME == "dec" {
                match (&reported[i], &reported[j]) {
                    (Some(x), Some(y)) => (x.clone(), y.clone()),
                    _ => continue,
                }
            } else {
                (b.um(i).scale.clone().unwrap(), b.um(j).scale.clone().unwrap())
            };
            let want = pow10(pi as i32 - pj as i32);
            if !si.div(&sj).eq(&want) {
                rep.violation(
                    "C07/prefix-consistency",
                    case(key, "si_prefix/scale", json!({"units": [b.vname(i), b.vname(j)], "exponents": [pi, pj]})),
                    format!("scale ratio {}", si.div(&sj).show()),
                    format!("10^{}", pi as i32 - pj as i32),
                );
            }
        }
    }
    rep.sample(json!({"type": key, "units": (0..b.n()).map(|i| format!("{} [{}] = {}", b.um(i).sym, b.um(i).prefix.clone().unwrap_or_default(), b.um(i).scale.as_ref().unwrap().show())).collect::<Vec<_>>()}));
}
