//! The format-specification grid of C15.  Fill, alignment and flags are literal in Rust format
//! strings, so the grid is a generated table of functions taking run-time width and precision.
use std::fmt::Display;

#[derive(Clone, Copy, Debug, PartialEq)]
pub struct Flags {
    pub text: &'static str,
    pub fill: Option<char>,
    /// '<', '^', '>'
    pub align: Option<char>,
    pub plus: bool,
    pub zero: bool,
}

#[derive(Clone, Copy, Debug, PartialEq)]
pub struct Spec {
    pub flags: Flags,
    pub width: Option<usize>,
    pub prec: Option<usize>,
}

impl Spec {
    pub fn show(&self) -> String {
        format!(
            "{{:{}{}{}}}",
            self.flags.text,
            self.width.map(|w| w.to_string()).unwrap_or_default(),
            self.prec.map(|p| format!(".{p}")).unwrap_or_default()
        )
    }
}

macro_rules! flag_table {
    ($( ($text:literal, $fill:expr, $align:expr, $plus:expr, $zero:expr) ),* $(,)?) => {
        pub const FLAGS: &[Flags] = &[
            $( Flags { text: $text, fill: $fill, align: $align, plus: $plus, zero: $zero } ),*
        ];
        /// format `v` under flag combination `i` with optional run-time width and precision
        pub fn apply<T: Display>(i: usize, width: Option<usize>, prec: Option<usize>, v: &T) -> String {
            let mut k = 0usize;
            $(
                if i == k {
                    return match (width, prec) {
                        (None, None) => format!(concat!("{:", $text, "}"), v),
                        (Some(w), None) => format!(concat!("{:", $text, "w$}"), v, w = w),
                        (None, Some(p)) => format!(concat!("{:", $text, ".p$}"), v, p = p),
                        (Some(w), Some(p)) => format!(concat!("{:", $text, "w$.p$}"), v, w = w, p = p),
                    };
                }
                k += 1;
            )*
            let _ = k;
            panic!("flag index out of range")
        }
    };
}

flag_table![
    ("", None, None, false, false),
    ("+", None, None, true, false),
    ("0", None, None, false, true),
    ("+0", None, None, true, true),
    ("<", None, Some('<'), false, false),
    ("<+", None, Some('<'), true, false),
    ("<0", None, Some('<'), false, true),
    ("<+0", None, Some('<'), true, true),
    ("^", None, Some('^'), false, false),
    ("^+", None, Some('^'), true, false),
    ("^0", None, Some('^'), false, true),
    ("^+0", None, Some('^'), true, true),
    (">", None, Some('>'), false, false),
    (">+", None, Some('>'), true, false),
    (">0", None, Some('>'), false, true),
    (">+0", None, Some('>'), true, true),
    ("*<", Some('*'), Some('<'), false, false),
    ("*<+", Some('*'), Some('<'), true, false),
    ("*<0", Some('*'), Some('<'), false, true),
    ("*<+0", Some('*'), Some('<'), true, true),
    ("_^", Some('_'), Some('^'), false, false),
    ("_^+", Some('_'), Some('^'), true, false),
    ("_^0", Some('_'), Some('^'), false, true),
    ("_^+0", Some('_'), Some('^'), true, true),
    ("0>", Some('0'), Some('>'), false, false),
    ("0>+", Some('0'), Some('>'), true, false),
    ("0>0", Some('0'), Some('>'), false, true),
    ("0>+0", Some('0'), Some('>'), true, true),
    ("µ>", Some('µ'), Some('>'), false, false),
    ("µ>+", Some('µ'), Some('>'), true, false),
    ("µ>0", Some('µ'), Some('>'), false, true),
    ("µ>+0", Some('µ'), Some('>'), true, true),
];

pub fn widths(thorough: bool) -> Vec<Option<usize>> {
    if thorough {
        let mut v = vec![None];
        v.extend((0..=40).map(Some));
        v
    } else {
        vec![None, Some(0), Some(1), Some(7), Some(12), Some(40)]
    }
}

pub fn precisions(thorough: bool) -> Vec<Option<usize>> {
    if thorough {
        let mut v = vec![None];
        v.extend((0..=20).map(Some));
        v
    } else {
        vec![None, Some(0), Some(1), Some(2), Some(6), Some(18), Some(20)]
    }
}

/// Specifications far beyond the grid: precisions longer than any f64 expansion (1074 fractional digits), widths
/// longer than any rendering; (flag index, width, precision).  Used by C15 (text judged) and C18 (totality).
pub fn long_specs(thorough: bool) -> Vec<(usize, Option<usize>, Option<usize>)> {
    let mut v = vec![
        (0, None, Some(30)),
        (0, None, Some(340)),
        (17, Some(600), Some(400)),
        (2, Some(520), Some(64)),
        (0, Some(700), None),
        (0, None, Some(1100)),
    ];
    if thorough {
        v.extend([
            (0, None, Some(21)),
            (0, None, Some(100)),
            (0, None, Some(200)),
            (0, None, Some(255)),
            (0, None, Some(256)),
            (0, None, Some(511)),
            (0, None, Some(512)),
            (0, None, Some(600)),
            (0, None, Some(1074)),
            (0, None, Some(1075)),
            (0, None, Some(2000)),
            (5, Some(256), None),
            (9, Some(1024), Some(0)),
            (29, Some(4096), Some(700)),
            (0, Some(65535), None),
            (0, None, Some(65535)),
        ]);
    }
    v
}
