//! C13 - rates relate two quantities consistently.
use super::common::*;
use crate::amt::{self, A};
use crate::core::*;
use crate::gen::syn::{syna::SynA, synnoref::SynNoRef, synpair::SynPair, synref::SynRef, synsingle::SynSingle};
use qv_model::calc::{convert_spec_ev, ErrVal};
use qv_model::{Rat, UnitModel};
use quantities::duration::Duration;
use quantities::length::Length;
use quantities::{Quantity, Rate};
use serde_json::json;

type RateOps<TQ, PQ> = (
    fn(Rate<TQ, PQ>, PQ) -> TQ,
    Option<fn(PQ, Rate<TQ, PQ>) -> TQ>,
    Option<fn(TQ, Rate<TQ, PQ>) -> PQ>,
    fn(Rate<PQ, TQ>, TQ) -> PQ,
);

macro_rules! full {
    ($t:ty, $tk:expr, $p:ty, $pk:expr, $blocks:expr, $setup:expr) => {
        add::<$t, $p>($tk, $pk, (|r, q| r * q, Some(|q, r| q * r), Some(|q, r| q / r), |r, q| r * q), $blocks, $setup)
    };
}
macro_rules! amt_per {
    ($t:ty, $tk:expr, $blocks:expr, $setup:expr) => {
        add::<$t, A>($tk, "amt.AmountT", (|r, q| r * q, None, Some(|q, r| q / r), |r, q| r * q), $blocks, $setup)
    };
}
macro_rules! amt_term {
    ($p:ty, $pk:expr, $blocks:expr, $setup:expr) => {
        add::<A, $p>("amt.AmountT", $pk, (|r, q| r * q, Some(|q, r| q * r), None, |r, q| r * q), $blocks, $setup)
    };
}
macro_rules! each_term {
    ($p:ty, $pk:expr, $blocks:expr, $setup:expr) => {
        full!(Length, "main.Length", $p, $pk, $blocks, $setup);
        full!(Duration, "main.Duration", $p, $pk, $blocks, $setup);
        full!(SynPair, "syn.SynPair", $p, $pk, $blocks, $setup);
        full!(SynRef, "syn.SynRef", $p, $pk, $blocks, $setup);
        full!(SynA, "syn.SynA", $p, $pk, $blocks, $setup);
        full!(SynSingle, "syn.SynSingle", $p, $pk, $blocks, $setup);
        amt_term!($p, $pk, $blocks, $setup);
    };
}

pub fn collect(blocks: &mut Vec<Block>, setup: &mut Report) {
    each_term!(Length, "main.Length", blocks, setup);
    each_term!(Duration, "main.Duration", blocks, setup);
    each_term!(SynPair, "syn.SynPair", blocks, setup);
    each_term!(SynRef, "syn.SynRef", blocks, setup);
    each_term!(SynA, "syn.SynA", blocks, setup);
    each_term!(SynSingle, "syn.SynSingle", blocks, setup);
    // a per-quantity without reference unit: operand restricted to the per unit (mixing is C10's panic)
    each_term!(SynNoRef, "syn.SynNoRef", blocks, setup);
    amt_per!(Length, "main.Length", blocks, setup);
    amt_per!(Duration, "main.Duration", blocks, setup);
    amt_per!(SynPair, "syn.SynPair", blocks, setup);
    amt_per!(SynRef, "syn.SynRef", blocks, setup);
    amt_per!(SynA, "syn.SynA", blocks, setup);
    amt_per!(SynSingle, "syn.SynSingle", blocks, setup);
    add::<A, A>("amt.AmountT", "amt.AmountT", (|r, q| r * q, None, None, |r, q| r * q), blocks, setup);
}

fn add<TQ, PQ>(tk: &str, pk: &str, ops: RateOps<TQ, PQ>, blocks: &mut Vec<Block>, setup: &mut Report)
where
    TQ: Quantity + QB,
    PQ: Quantity + QB,
    TQ::UnitType: UB,
    PQ::UnitType: UB,
{
    let (Some(bt), Some(bp)) = (bind_or_fail::<TQ>(tk, setup), bind_or_fail::<PQ>(pk, setup)) else { return };
    setup.inc("type_pairs");
    for it in 0..bt.n() {
        let (bt, bp) = (bt.clone(), bp.clone());
        blocks.push(Block::new(format!("C13/{}/{}/{}", tk, pk, bt.vname(it)), move |rep| block::<TQ, PQ>(bt, bp, it, ops, rep)));
    }
}

/// exact scale of a unit; 1 for quantities without reference unit (only same-unit operands are used there)
fn scale_or_one(u: &UnitModel) -> Rat {
    u.scale.clone().unwrap_or_else(Rat::one)
}

/// like-quantity ratio q[uq] / (1 [ud]) as the amount type may evaluate it
fn ratio_spec(q: &ErrVal, uq: &UnitModel, ud: &UnitModel) -> Option<ErrVal> {
    if uq.variant == ud.variant || uq.scale.is_none() {
        return Some(q.clone());
    }
    // q / conv(1 [ud] -> uq)   and   conv(q -> ud) / 1
    let one = ErrVal::exact(Rat::one());
    let o1 = q.div(&convert_spec_ev(&one, ud, uq, BE)?, BE)?;
    let o2 = convert_spec_ev(q, uq, ud, BE)?;
    Some(o1.widen(&o2))
}

fn block<TQ, PQ>(bt: Bind<TQ>, bp: Bind<PQ>, it: usize, ops: RateOps<TQ, PQ>, rep: &mut Report)
where
    TQ: Quantity + QB,
    PQ: Quantity + QB,
    TQ::UnitType: UB,
    PQ::UnitType: UB,
{
    let name = format!("Rate<{}, {}>", bt.tm.key, bp.tm.key);
    let (mul_rq, mul_qr, div_qr, recip_mul) = ops;
    let p = |s: &str| amt::parse(s);
    let terms: Vec<A> = if thorough() { amt::alphabet_small(tier()) } else { vec![p("1"), p("17.4"), p("-2.54"), p("0")] };
    let mults: Vec<A> = if thorough() { vec![p("1"), p("2"), p("0.5"), p("60"), p("-4"), p("1e-3"), p("-1")] } else { vec![p("1"), p("2"), p("0.5"), p("-2")] };
    let operands = amt::alphabet_small(tier());
    // terms x multiples, plus digit-rich terms over small multiples: there the order "divide by the per value, then
    // multiply by the term amount" the statement gives differs visibly from multiplying first when amounts have a
    // fixed number of fractional digits
    let mut combos: Vec<(A, A)> = terms.iter().flat_map(|&t| mults.iter().map(move |&m| (t, m))).collect();
    for (t, m) in [("0.123456789012345678", "0.000000001"), ("0.000000025", "0.000000001"), ("-123456.789", "0.000001"), ("0.000000001", "0.123456789012345678")] {
        combos.push((p(t), p(m)));
    }
    let ut = bt.units[it];
    let mt = bt.um(it);
    for ip in 0..bp.n() {
        let up = bp.units[ip];
        let mp = bp.um(ip);
        for &(ta, mu) in &combos {
            {
                rep.inc("states");
                rep.count("transitions", 7);
                let rate = Rate::<TQ, PQ>::new(ta, ut, mu, up);
                let rate2 = Rate::<TQ, PQ>::from_qty_vals(TQ::new(ta, ut), PQ::new(mu, up));
                let mk0 = || case(&name, "Rate", json!({"term": show_q(ta, bt.vname(it)), "per": show_q(mu, bp.vname(ip))}));
                // accessors report exactly the four components, through both constructors
                for (how, r) in [("new", rate), ("from_qty_vals", rate2)] {
                    if !amt::same(r.term_amount(), ta) || r.term_unit() != ut || !amt::same(r.per_unit_multiple(), mu) || r.per_unit() != up {
                        rep.violation("C13/accessors", mk0(), format!("{how}: {} {:?} / {} {:?}", amt::show(r.term_amount()), r.term_unit(), amt::show(r.per_unit_multiple()), r.per_unit()), "the four components as given".into());
                    }
                }
                // reciprocal swaps them exactly; twice = identity
                let rc = rate.reciprocal();
                if !amt::same(rc.term_amount(), mu) || rc.term_unit() != up || !amt::same(rc.per_unit_multiple(), ta) || rc.per_unit() != ut {
                    rep.violation("C13/reciprocal", mk0(), format!("{} {:?} / {} {:?}", amt::show(rc.term_amount()), rc.term_unit(), amt::show(rc.per_unit_multiple()), rc.per_unit()), "term and per swapped".into());
                }
                let rcc = rc.reciprocal();
                if !amt::same(rcc.term_amount(), ta) || rcc.term_unit() != ut || !amt::same(rcc.per_unit_multiple(), mu) || rcc.per_unit() != up {
                    rep.violation("C13/reciprocal-twice", mk0(), format!("{} {:?} / {} {:?}", amt::show(rcc.term_amount()), rcc.term_unit(), amt::show(rcc.per_unit_multiple()), rcc.per_unit()), "the original rate".into());
                }
                rep.inc("sensitive");
                let (tar, mur) = (rat_of(ta).unwrap(), rat_of(mu).unwrap());
                // ---- rate * q and q * rate, q in every unit of the per quantity
                for iq in 0..bp.n() {
                    if bp.tm.reff.is_none() && iq != ip {
                        continue;
                    }
                    let (uq, mq) = (bp.units[iq], bp.um(iq));
                    for &qa in &operands {
                        rep.inc("states");
                        let q = PQ::new(qa, uq);
                        let mk = |op: &str| case(&name, op, json!({"rate": format!("{} / {}", show_q(ta, bt.vname(it)), show_q(mu, bp.vname(ip))), "q": show_q(qa, bp.vname(iq))}));
                        let qr = rat_of(qa).unwrap();
                        // spec: term x ((q / 1 per_unit) / mult), in the term unit
                        let spec = (|| {
                            if mur.is_zero() || !in_domain(&qr) || !in_domain(&tar) || !in_domain(&mur) {
                                return None;
                            }
                            let r1 = ratio_spec(&ErrVal::exact(qr.clone()), mq, mp)?;
                            let r2 = r1.div(&ErrVal::exact(mur.clone()), BE)?;
                            let r3 = r2.mul(&ErrVal::exact(tar.clone()), BE);
                            if in_domain(&r1.v) && in_domain(&r2.v) && in_domain(&r3.v) && in_domain(&r3.v.mul(&scale_or_one(mt))) {
                                Some(r3)
                            } else {
                                None
                            }
                        })();
                        rep.inc("transitions");
                        let got = guard(|| {
                            let r = mul_rq(rate, q);
                            (r.unit(), r.amount())
                        });
                        let first = judge(rep, "C13/rate-times-value", mk("rate * q"), &got, ut, &spec, bt.vname(it));
                        if let Some(f) = mul_qr {
                            rep.inc("transitions");
                            let got2 = guard(|| {
                                let r = f(q, rate);
                                (r.unit(), r.amount())
                            });
                            // the other operand order is judged against the same exact value (the statement asks for
                            // the same value "in either operand order", up to rounding - not for identical bits)
                            if judge(rep, "C13/value-times-rate", mk("q * rate"), &got2, ut, &spec, bt.vname(it)).is_some() {
                                rep.inc("operand_orders_agree");
                            }
                            if let (Ok((_, a1)), Ok((_, a2))) = (&got, &got2) {
                                if amt::same(*a1, *a2) {
                                    rep.inc("operand_orders_bit_identical");
                                }
                            }
                        }
                        let _ = first;
                    }
                }
                // ---- q / rate, q in every unit of the term quantity; then the two inverse paths
                let Some(div_qr) = div_qr else { continue };
                for iq in 0..bt.n() {
                    if bt.tm.reff.is_none() && iq != it {
                        continue;
                    }
                    let (uq, mq) = (bt.units[iq], bt.um(iq));
                    for &qa in &operands {
                        rep.inc("states");
                        let q = TQ::new(qa, uq);
                        let mk = |op: &str| case(&name, op, json!({"rate": format!("{} / {}", show_q(ta, bt.vname(it)), show_q(mu, bp.vname(ip))), "q": show_q(qa, bt.vname(iq))}));
                        let qr = rat_of(qa).unwrap();
                        // spec: mult x ((q / 1 term_unit) / term), in the per unit
                        let spec = (|| {
                            if tar.is_zero() || !in_domain(&qr) || !in_domain(&tar) || !in_domain(&mur) {
                                return None;
                            }
                            let r1 = ratio_spec(&ErrVal::exact(qr.clone()), mq, mt)?;
                            let r2 = r1.div(&ErrVal::exact(tar.clone()), BE)?;
                            let r3 = r2.mul(&ErrVal::exact(mur.clone()), BE);
                            if in_domain(&r1.v) && in_domain(&r2.v) && in_domain(&r3.v) && in_domain(&r3.v.mul(&scale_or_one(mp))) {
                                Some(r3)
                            } else {
                                None
                            }
                        })();
                        rep.inc("transitions");
                        let got = guard(|| {
                            let r = div_qr(q, rate);
                            (r.unit(), r.amount())
                        });
                        let pv = judge(rep, "C13/value-by-rate", mk("q / rate"), &got, up, &spec, bp.vname(ip));
                        // multiplication by the reciprocal agrees (both are judged against the same exact value)
                        rep.inc("transitions");
                        let got_rc = guard(|| {
                            let r = recip_mul(rc, q);
                            (r.unit(), r.amount())
                        });
                        judge(rep, "C13/reciprocal-times-value", mk("rate.reciprocal() * q"), &got_rc, up, &spec, bp.vname(ip));
                        // inverse path: (q / rate) * rate has q's magnitude, in the term unit
                        if let (Some(pa), Some(sp)) = (pv, &spec) {
                            if mur.is_zero() {
                                continue;
                            }
                            let spec_back = (|| {
                                let r2 = sp.div(&ErrVal::exact(mur.clone()), BE)?;
                                let r3 = r2.mul(&ErrVal::exact(tar.clone()), BE);
                                if in_domain(&r2.v) && in_domain(&r3.v) {
                                    Some(r3)
                                } else {
                                    None
                                }
                            })();
                            rep.inc("transitions");
                            let back = guard(|| {
                                let r = mul_rq(rate, PQ::new(pa, up));
                                (r.unit(), r.amount())
                            });
                            if judge(rep, "C13/inverse-path", mk("(q / rate) * rate"), &back, ut, &spec_back, bt.vname(it)).is_some() {
                                rep.inc("inverse_paths");
                            }
                        }
                    }
                }
            }
        }
    }
    rep.sample(json!({"pair": name, "term unit": bt.vname(it), "terms": terms.len(), "multiples": mults.len(), "operands": operands.len()}));
}

/// judge one result against unit and spec; returns the amount when it was value-checked and fine
fn judge<U: UB>(
    rep: &mut Report,
    class: &str,
    case: serde_json::Value,
    got: &Result<(U, A), String>,
    want_unit: U,
    spec: &Option<ErrVal>,
    unit_name: &str,
) -> Option<A> {
    match (got, spec) {
        (Err(p), Some(s)) => {
            rep.violation("C13/panic", case, format!("panic: {p}"), format!("{} {}", s.v.show(), unit_name));
            None
        }
        (Err(_), None) => {
            if amt::BACKEND_NAME == "f64" {
                rep.violation("C13/panic", case, "panic under f64".into(), "no panic".into());
            } else {
                rep.inc("out_of_domain_panics");
            }
            None
        }
        (Ok((u, a)), spec) => {
            if *u != want_unit {
                rep.violation(&format!("{class}/unit"), case.clone(), format!("{:?}", u), format!("{:?}", want_unit));
            }
            let Some(s) = spec else {
                rep.inc("out_of_domain");
                return None;
            };
            rep.inc("value_checked");
            match rat_of(*a) {
                Some(o) if s.within(&o) => {
                    if !s.v.is_zero() && s.rel_tol() <= SENSITIVE_REL {
                        rep.inc("sensitive");
                    }
                    Some(*a)
                }
                _ => {
                    rep.violation(class, case, format!("{} {}", amt::show(*a), unit_name), format!("{} +- {:e} {}", s.v.show(), s.tol(), unit_name));
                    None
                }
            }
        }
    }
}
