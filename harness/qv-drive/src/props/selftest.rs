//! Differential self-test of qv-model's bigint / Rat arithmetic against Python's integers and
//! fractions (corpus written by lib/selftest.py to build/selftest.json).
use crate::core::*;
use qv_model::{BigInt, Rat};
use serde_json::{json, Value};

pub fn collect(blocks: &mut Vec<Block>, _setup: &mut Report) {
    blocks.push(Block::new("selftest".into(), run));
}

fn rat(v: &Value) -> Rat {
    Rat::parse(v.as_str().unwrap()).unwrap()
}

fn run(rep: &mut Report) {
    let path = std::env::var("QV_SELFTEST").unwrap_or_else(|_| "../build/selftest.json".into());
    let text = match std::fs::read_to_string(&path) {
        Ok(t) => t,
        Err(e) => {
            rep.machinery.push(format!("cannot read {path}: {e}"));
            return;
        }
    };
    let doc: Value = serde_json::from_str(&text).unwrap();
    for c in doc["binary"].as_array().unwrap() {
        rep.inc("transitions");
        let (a, b) = (rat(&c["a"]), rat(&c["b"]));
        let got = match c["op"].as_str().unwrap() {
            "add" => a.add(&b),
            "sub" => a.sub(&b),
            "mul" => a.mul(&b),
            "div" => a.div(&b),
            _ => unreachable!(),
        };
        let want = rat(&c["expect"]);
        let cmp_want = c["cmp"].as_i64().unwrap() as i32;
        let cmp_got = match a.cmp(&b) {
            std::cmp::Ordering::Less => -1,
            std::cmp::Ordering::Equal => 0,
            std::cmp::Ordering::Greater => 1,
        };
        if !got.eq(&want) || cmp_got != cmp_want {
            rep.violation("selftest/rat", json!({"case": c}), format!("{} cmp {}", got.to_ratio_string(), cmp_got), format!("{} cmp {}", c["expect"], cmp_want));
        } else {
            rep.inc("sensitive");
        }
    }
    for c in doc["f64"].as_array().unwrap() {
        rep.inc("transitions");
        let bits = u64::from_str_radix(c["bits"].as_str().unwrap(), 16).unwrap();
        let x = f64::from_bits(bits);
        let got = Rat::from_f64(x).unwrap();
        let want = rat(&c["expect"]);
        let back = got.to_f64();
        let rel_ok = if x == 0.0 { back == 0.0 } else { ((back - x) / x).abs() < 1e-14 };
        if !got.eq(&want) || !rel_ok {
            rep.violation("selftest/f64", json!({"case": c}), format!("{} -> {}", got.to_ratio_string(), back), c["expect"].to_string());
        } else {
            rep.inc("sensitive");
        }
    }
    for c in doc["int"].as_array().unwrap() {
        rep.inc("transitions");
        let (a, b) = (BigInt::parse(c["a"].as_str().unwrap()).unwrap(), BigInt::parse(c["b"].as_str().unwrap()).unwrap());
        let (q, r) = a.divrem(&b);
        let prod = a.mul(&b).to_string();
        if q.to_string() != c["q"].as_str().unwrap() || r.to_string() != c["r"].as_str().unwrap() || prod != c["prod"].as_str().unwrap() {
            rep.violation("selftest/bigint", json!({"case": c}), format!("q={} r={} prod={}", q.to_string(), r.to_string(), prod), "python".into());
        } else {
            rep.inc("sensitive");
        }
    }
    for c in doc["scaled"].as_array().unwrap() {
        rep.inc("transitions");
        let a = rat(&c["a"]);
        let places = c["places"].as_u64().unwrap() as u32;
        let fl = a.floor_scaled10(places).to_string();
        let dec = a.to_decimal_string(40);
        let dec_want = c["decimal"].as_str().map(|s| s.to_string());
        if fl != c["floor"].as_str().unwrap() || dec != dec_want {
            rep.violation("selftest/scaled", json!({"case": c}), format!("floor={} decimal={:?}", fl, dec), format!("{:?}", c));
        } else {
            rep.inc("sensitive");
        }
    }
    rep.count("states", rep.get("transitions"));
    rep.sample(json!({"selftest": "binary rational ops, exact f64 decoding, bigint divrem/mul, decimal expansion"}));
}
