//! C18 - operations are total on in-range inputs.
use super::common::*;
use super::derived::*;
use super::fmtgrid;
use crate::amt::{self, A};
use crate::core::*;
use crate::derived_wrappers;
use qv_model::{Backend, Rat};
use quantities::duration::Duration;
use quantities::length::Length;
use quantities::mass::Mass;
use quantities::{HasRefUnit, LinearScaledUnit, Quantity, Rate};
use serde_json::json;
use std::fmt::Display;
use std::ops::{Add, Div, Mul, Sub};

pub fn collect(blocks: &mut Vec<Block>, setup: &mut Report) {
    crate::for_each_ref_type!(add_type, blocks, setup);
    crate::for_each_operator!(fm, fd, blocks, setup);
    rates::<Length, Duration>("main.Length", "main.Duration", (|r, q| r * q, |q, r| q * r, |q, r| q / r), blocks, setup);
    rates::<Mass, Length>("main.Mass", "main.Length", (|r, q| r * q, |q, r| q * r, |q, r| q / r), blocks, setup);
    rates::<Duration, Duration>("main.Duration", "main.Duration", (|r, q| r * q, |q, r| q * r, |q, r| q / r), blocks, setup);
}

/// the totality alphabet: values, every IEEE class (f64) / the range edges (Decimal)
fn totality_alphabet() -> Vec<A> {
    let mut t = amt::alphabet_v(tier());
    t.extend(amt::alphabet_s());
    t.extend(amt::alphabet_r());
    amt::dedup(t)
}

fn dec() -> bool {
    BE == Backend::Dec
}

/// record the outcome of one guarded operation: a panic is a violation iff the case is admitted
fn outcome<T>(rep: &mut Report, r: Result<T, String>, admitted: bool, class: &str, mk: impl Fn() -> serde_json::Value) {
    rep.inc("transitions");
    match r {
        Ok(_) => {
            if admitted {
                rep.inc("admitted_no_panic");
                rep.inc("sensitive");
            } else {
                rep.inc("excluded_no_panic");
            }
        }
        Err(p) => {
            if admitted {
                rep.violation(class, mk(), format!("panic: {p}"), "no panic (all magnitudes in range)".into());
            } else {
                rep.inc("excluded_panics");
            }
        }
    }
}

fn add_type<Q>(key: &str, blocks: &mut Vec<Block>, setup: &mut Report)
where
    Q: HasRefUnit + QB + PartialEq + PartialOrd + Display + Add<Q, Output = Q> + Sub<Q, Output = Q> + Div<Q, Output = A>,
    Q::UnitType: LinearScaledUnit + UB,
{
    let Some(b) = bind_or_fail::<Q>(key, setup) else { return };
    setup.inc("types");
    for iu in 0..b.n() {
        let bb = b.clone();
        blocks.push(Block::new(format!("C18/{}/{}", key, b.vname(iu)), move |rep| like_block::<Q>(bb, iu, rep)));
    }
}

/// every magnitude of a like-quantity operation in range (Decimal); always true for f64
struct LikeDom {
    both: bool,
    a_only: bool,
}

fn like_domain(ar: &Option<Rat>, su: &Rat, br: &Option<Rat>, sv: &Rat, min: &Rat) -> LikeDom {
    if !dec() {
        return LikeDom { both: true, a_only: true };
    }
    let one = |x: &Rat, s: &Rat| -> bool {
        let m = x.mul(s);
        in_domain(x) && in_domain(&m) && in_domain(&m.div(min))
    };
    let a_ok = ar.as_ref().map(|a| one(a, su)).unwrap_or(false);
    let b_ok = br.as_ref().map(|b| one(b, sv)).unwrap_or(false);
    let cross = match (ar, br) {
        (Some(a), Some(b)) => {
            in_domain(&a.mul(su).div(sv)) && in_domain(&b.mul(sv).div(su)) && in_domain(&su.div(sv)) && in_domain(&sv.div(su))
        }
        _ => false,
    };
    LikeDom { both: a_ok && b_ok && cross, a_only: a_ok }
}

fn like_block<Q>(b: Bind<Q>, iu: usize, rep: &mut Report)
where
    Q: HasRefUnit + QB + PartialEq + PartialOrd + Display + Add<Q, Output = Q> + Sub<Q, Output = Q> + Div<Q, Output = A>,
    Q::UnitType: LinearScaledUnit + UB,
{
    let key = b.tm.key.as_str();
    let t = totality_alphabet();
    let min = min_scale(&b);
    let (uu, mu) = (b.units[iu], b.um(iu));
    let su = mu.scale.clone().unwrap();
    let specs: [(usize, Option<usize>, Option<usize>); 5] = [(0, None, None), (3, Some(8), Some(3)), (21, Some(20), Some(0)), (0, None, Some(20)), (29, Some(40), Some(18))];
    let long = fmtgrid::long_specs(thorough());
    let n_units = b.n();
    let wide = if thorough() { n_units <= 30 } else { n_units <= 24 };
    let r0 = b.tm.ref_index().unwrap_or(0);
    for &a in &t {
        rep.inc("states");
        let ar = rat_of(a);
        let qa = Q::new(a, uu);
        let dom_a = like_domain(&ar, &su, &ar, &su, &min).a_only;
        // formatting
        for &(fi, w, p) in specs.iter().chain(long.iter()) {
            let r = guard(|| fmtgrid::apply(fi, w, p, &qa));
            outcome(rep, r, dom_a, "C18/format-panics", || case(key, "format", json!({"value": show_q(a, b.vname(iu)), "flags": fmtgrid::FLAGS[fi].text, "width": w, "precision": p})));
        }
        // _fit: the amount is a reference-unit magnitude; in range in every unit of the type
        if iu == 0 {
            let fit_ok = !dec() || ar.as_ref().map(|x| in_domain(x) && (0..b.n()).all(|i| in_domain(&x.div(b.um(i).scale.as_ref().unwrap())))).unwrap_or(false);
            let r = guard(|| {
                let q = Q::_fit(a);
                (q.amount(), q.unit())
            });
            rep.inc("fit_calls");
            outcome(rep, r, fit_ok, "C18/fit-panics", || case(key, "_fit", json!({"amount": amt::show(a)})));
        }
        for iv in 0..b.n() {
            // types with more than 24 (thorough: 30) units: the second unit ranges over the first one, the reference
            // unit, the neighbour, the smallest and the largest instead of all units
            if !wide && !(iv == iu || iv == r0 || iv == (iu + 1) % n_units || iv == 0 || iv == n_units - 1) {
                continue;
            }
            let (uv, mv) = (b.units[iv], b.um(iv));
            let sv = mv.scale.clone().unwrap();
            // conversion
            let conv_ok = !dec() || (dom_a && ar.as_ref().map(|x| in_domain(&x.mul(&su).div(&sv)) && in_domain(&su.div(&sv))).unwrap_or(false));
            let r = guard(|| (qa.convert(uv).amount(), qa.equiv_amount(uv)));
            outcome(rep, r, conv_ok, "C18/convert-panics", || case(key, "convert", json!({"value": show_q(a, b.vname(iu)), "to": b.vname(iv)})));
            for &bb in &t {
                let br = rat_of(bb);
                let qb = Q::new(bb, uv);
                let d = like_domain(&ar, &su, &br, &sv, &min);
                let mk = |op: &str| case(key, op, json!({"a": show_q(a, b.vname(iu)), "b": show_q(bb, b.vname(iv))}));
                // comparison
                let r = guard(|| (qa == qb, qa < qb, qa >= qb, PartialOrd::partial_cmp(&qa, &qb)));
                outcome(rep, r, d.both, "C18/compare-panics", || mk("compare"));
                // sum and difference: the result must be in range as well
                for (k, op) in ["+", "-"].iter().enumerate() {
                    let res_ok = !dec()
                        || (d.both && {
                            let (x, y) = (ar.as_ref().unwrap().mul(&su), br.as_ref().unwrap().mul(&sv));
                            let m = if k == 0 { x.add(&y) } else { x.sub(&y) };
                            in_domain(&m) && in_domain(&m.div(&su)) && in_domain(&m.div(&min))
                        });
                    let r = guard(|| if k == 0 { (qa + qb).amount() } else { (qa - qb).amount() });
                    outcome(rep, r, res_ok, "C18/add-sub-panics", || mk(op));
                }
                // ratio: non-zero divisor, quotient in range
                let div_ok = if dec() {
                    d.both && !br.as_ref().unwrap().is_zero() && in_domain(&ar.as_ref().unwrap().mul(&su).div(&br.as_ref().unwrap().mul(&sv)))
                } else {
                    true
                };
                let r = guard(|| qa / qb);
                outcome(rep, r, div_ok, "C18/ratio-panics", || mk("/"));
            }
        }
    }
    rep.sample(json!({"type": key, "left unit": b.vname(iu), "alphabet": t.iter().take(60).map(|x| amt::show(*x)).collect::<Vec<_>>()}));
}

derived_wrappers!(fm, fd, "C18", derived_block);

fn derived_block<L, X, Z>(c: OpCtx<L, X, Z>, iu: usize, rep: &mut Report)
where
    L: HasRefUnit + QB,
    X: HasRefUnit + QB,
    Z: HasRefUnit + QB,
    L::UnitType: LinearScaledUnit + UB,
    X::UnitType: LinearScaledUnit + UB,
    Z::UnitType: LinearScaledUnit + UB,
{
    let t = totality_alphabet();
    let (min_l, min_x, min_z) = (min_scale(&c.bl), min_scale(&c.bx), min_scale(&c.bz));
    let (ul, ml) = (c.bl.units[iu], c.bl.um(iu));
    for ix in 0..c.bx.n() {
        let (ux, mx) = (c.bx.units[ix], c.bx.um(ix));
        for &x in &t {
            for &y in &t {
                rep.inc("states");
                let admitted = if dec() {
                    match (rat_of(x), rat_of(y)) {
                        (Some(xr), Some(yr)) => match derived_domain(c.op, &xr, ml, &min_l, &yr, mx, &min_x, &min_z) {
                            Ok(m) => {
                                // the result in every eligible unit of the result quantity stays in range
                                (0..c.bz.n()).all(|i| in_domain(&m.div(c.bz.um(i).scale.as_ref().unwrap())))
                            }
                            Err(clause) => {
                                rep.inc(&format!("excluded_{clause}"));
                                false
                            }
                        },
                        _ => false,
                    }
                } else {
                    true
                };
                let r = guard(|| {
                    let z = (c.forms[0])(L::new(x, ul), X::new(y, ux));
                    (z.amount(), z.unit())
                });
                rep.inc("derived_ops");
                outcome(rep, r, admitted, "C18/derived-op-panics", || {
                    case(&c.name, c.op.sym(), json!({"a": show_q(x, c.bl.vname(iu)), "b": show_q(y, c.bx.vname(ix))}))
                });
            }
        }
    }
}

type RateOps3<TQ, PQ> = (fn(Rate<TQ, PQ>, PQ) -> TQ, fn(PQ, Rate<TQ, PQ>) -> TQ, fn(TQ, Rate<TQ, PQ>) -> PQ);

fn rates<TQ, PQ>(tk: &str, pk: &str, ops: RateOps3<TQ, PQ>, blocks: &mut Vec<Block>, setup: &mut Report)
where
    TQ: HasRefUnit + QB,
    PQ: HasRefUnit + QB,
    TQ::UnitType: LinearScaledUnit + UB,
    PQ::UnitType: LinearScaledUnit + UB,
{
    let (Some(bt), Some(bp)) = (bind_or_fail::<TQ>(tk, setup), bind_or_fail::<PQ>(pk, setup)) else { return };
    for it in 0..bt.n() {
        let (bt, bp) = (bt.clone(), bp.clone());
        blocks.push(Block::new(format!("C18/rate/{tk}/{pk}/{}", bt.vname(it)), move |rep| {
            let name = format!("Rate<{}, {}>", bt.tm.key, bp.tm.key);
            let t = totality_alphabet();
            let small = amt::alphabet_small(tier());
            let ut = bt.units[it];
            // Decimal: rate operations on mid-range, digit-rich amounts.  Admitted iff every magnitude the statement of
            // C13 names is in range: operand, term, multiple, their quotient and the result.
            if dec() {
                let vals: Vec<A> = ["1", "2.5", "10000", "12345678901.123456789", "98765432109.987654321", "1e13", "0.000123456789", "-40000.5"]
                    .iter()
                    .map(|s| amt::parse(s))
                    .collect();
                for ip in 0..bp.n() {
                    let up = bp.units[ip];
                    for &ta in &vals {
                        for &mu in &vals {
                            let rate = Rate::<TQ, PQ>::new(ta, ut, mu, up);
                            for &qa in &vals {
                                rep.inc("states");
                                let (tr, mr, qr) = (rat_of(ta).unwrap(), rat_of(mu).unwrap(), rat_of(qa).unwrap());
                                let ok = |xs: &[Rat]| xs.iter().all(in_domain);
                                let adm_mul = ok(&[tr.clone(), mr.clone(), qr.clone(), qr.div(&mr), qr.div(&mr).mul(&tr)]);
                                let adm_div = ok(&[tr.clone(), mr.clone(), qr.clone(), qr.div(&tr), qr.div(&tr).mul(&mr)]);
                                let mk = |op: &str| case(&name, op, json!({"term": show_q(ta, bt.vname(it)), "per": show_q(mu, bp.vname(ip)), "q": amt::show(qa)}));
                                outcome(rep, guard(|| (ops.0)(rate, PQ::new(qa, up)).amount()), adm_mul, "C18/rate-op-panics", || mk("rate * q"));
                                outcome(rep, guard(|| (ops.1)(PQ::new(qa, up), rate).amount()), adm_mul, "C18/rate-op-panics", || mk("q * rate"));
                                outcome(rep, guard(|| (ops.2)(TQ::new(qa, ut), rate).amount()), adm_div, "C18/rate-op-panics", || mk("q / rate"));
                                rep.count("rate_ops", 3);
                            }
                        }
                    }
                }
            }
            for ip in 0..bp.n() {
                let up = bp.units[ip];
                // term amount and operand from the totality alphabet, multiple from the small alphabet, and vice versa
                for (terms, mults) in [(&t, &small), (&small, &t)] {
                    for &ta in terms.iter() {
                        for &mu in mults.iter() {
                            let rate = Rate::<TQ, PQ>::new(ta, ut, mu, up);
                            rep.inc("states");
                            // under f64 nothing may panic; under Decimal the rate operations are admitted through the
                            // value-checked domain of C13 (a panic inside it is reported there), here only the
                            // formatting of rates is judged
                            let r = guard(|| format!("{}", rate));
                            outcome(rep, r, true, "C18/rate-format-panics", || case(&name, "format", json!({"term": amt::show(ta), "multiple": amt::show(mu)})));
                            if dec() {
                                continue;
                            }
                            for &qa in &t {
                                let (q, qt) = (PQ::new(qa, up), TQ::new(qa, ut));
                                let mk = |op: &str| case(&name, op, json!({"term": show_q(ta, bt.vname(it)), "per": show_q(mu, bp.vname(ip)), "q": amt::show(qa)}));
                                outcome(rep, guard(|| (ops.0)(rate, q).amount()), true, "C18/rate-op-panics", || mk("rate * q"));
                                outcome(rep, guard(|| (ops.1)(q, rate).amount()), true, "C18/rate-op-panics", || mk("q * rate"));
                                outcome(rep, guard(|| (ops.2)(qt, rate).amount()), true, "C18/rate-op-panics", || mk("q / rate"));
                                rep.count("rate_ops", 3);
                            }
                        }
                    }
                }
            }
        }));
    }
}
