//! C15, rates: a rate displays as 'term / per', omitting a per-multiple of one.
use super::c15::rate_text;
use crate::amt::{self, A};
use crate::core::*;
use crate::gen::syn::{synnoref::SynNoRef, synsingle::SynSingle};
use quantities::duration::Duration;
use quantities::length::Length;
use quantities::mass::Mass;
use quantities::{Quantity, Rate};
use serde_json::json;

pub fn collect(blocks: &mut Vec<Block>, setup: &mut Report) {
    add::<Length, Duration>("main.Length", "main.Duration", blocks, setup);
    add::<Mass, Length>("main.Mass", "main.Length", blocks, setup);
    add::<A, Duration>("amt.AmountT", "main.Duration", blocks, setup);
    add::<Length, A>("main.Length", "amt.AmountT", blocks, setup);
    add::<SynSingle, SynNoRef>("syn.SynSingle", "syn.SynNoRef", blocks, setup);
    add::<A, A>("amt.AmountT", "amt.AmountT", blocks, setup);
}

fn add<TQ, PQ>(tk: &str, pk: &str, blocks: &mut Vec<Block>, setup: &mut Report)
where
    TQ: Quantity + QB,
    PQ: Quantity + QB,
    TQ::UnitType: UB,
    PQ::UnitType: UB,
{
    let (Some(bt), Some(bp)) = (bind_or_fail::<TQ>(tk, setup), bind_or_fail::<PQ>(pk, setup)) else { return };
    setup.inc("rate_type_pairs");
    blocks.push(Block::new(format!("C15/rates/{tk}/{pk}"), move |rep| {
        let name = format!("Rate<{}, {}>", bt.tm.key, bp.tm.key);
        let terms = super::c15::amounts();
        let mut mults: Vec<A> = ["1", "2", "0.5", "-1", "60", "1.0", "0"].iter().map(|s| amt::parse(s)).collect();
        mults.extend(amt::neighbourhood(amt::parse("1"), 1));
        for it in 0..bt.n() {
            for ip in 0..bp.n() {
                for &ta in &terms {
                    for &mu in &mults {
                        rep.inc("states");
                        rep.inc("transitions");
                        rep.inc("rate_cases");
                        let r = Rate::<TQ, PQ>::new(ta, bt.units[it], mu, bp.units[ip]);
                        let want = rate_text(&r);
                        let got = guard(|| format!("{}", r));
                        let mk = || case(&name, "format!(rate)", json!({"term": show_q(ta, bt.vname(it)), "per": show_q(mu, bp.vname(ip))}));
                        match got {
                            Ok(g) if g == want => {
                                rep.inc("sensitive");
                                if mu == amt::parse("1") {
                                    rep.inc("rate_multiple_one_cases");
                                }
                            }
                            Ok(g) => rep.violation("C15/rate-display", mk(), format!("{:?}", g), format!("{:?}", want)),
                            Err(e) => rep.violation("C15/panic", mk(), format!("panic: {e}"), format!("{:?}", want)),
                        }
                    }
                }
            }
        }
        rep.sample(json!({"rate": name, "example": rate_text(&Rate::<TQ, PQ>::new(amt::parse("17.4"), bt.units[0], amt::parse("1"), bp.units[0]))}));
    }));
}
