//! C08 - construction and scaling by numbers are exact and unit-preserving.
use crate::amt::{self, A};
use crate::core::*;
use quantities::{Quantity, Unit};
use serde_json::json;
use std::ops::{Div, Mul};

pub fn collect(blocks: &mut Vec<Block>, setup: &mut Report) {
    crate::for_each_type!(add_type, blocks, setup);
    crate::for_each_c08_extra_type!(add_type, blocks, setup);
}

pub trait Scalable: Quantity + Mul<A, Output = Self> + Div<A, Output = Self>
where
    A: Mul<Self, Output = Self>,
{
}
impl<T: Quantity + Mul<A, Output = T> + Div<A, Output = T>> Scalable for T where A: Mul<T, Output = T> {}

fn add_type<Q>(key: &str, blocks: &mut Vec<Block>, setup: &mut Report)
where
    Q: Quantity + QB + Mul<A, Output = Q> + Div<A, Output = Q>,
    Q::UnitType: UB + Mul<A, Output = Q>,
    A: Mul<Q, Output = Q> + Mul<Q::UnitType, Output = Q>,
{
    let Some(b) = bind_or_fail::<Q>(key, setup) else { return };
    setup.inc("types");
    setup.count("units", b.n() as u64);
    for iu in 0..b.n() {
        let bb = b.clone();
        blocks.push(Block::new(format!("C08/{}/{}", key, b.vname(iu)), move |rep| block::<Q>(bb, iu, rep)));
    }
}

fn block<Q>(b: Bind<Q>, iu: usize, rep: &mut Report)
where
    Q: Quantity + QB + Mul<A, Output = Q> + Div<A, Output = Q>,
    Q::UnitType: UB + Mul<A, Output = Q>,
    A: Mul<Q, Output = Q> + Mul<Q::UnitType, Output = Q>,
{
    let key = b.tm.key.as_str();
    let u = b.units[iu];
    let mut alpha = amt::alphabet_v(tier());
    alpha.extend(amt::alphabet_s());
    alpha.extend(amt::alphabet_r());
    let alpha = amt::dedup(alpha);
    if key == "amt.AmountT" {
        // the dimensionless amount behaves as a quantity whose only unit has an empty symbol (scale one: C07/C09)
        let units: Vec<Q::UnitType> = Q::iter_units().collect();
        if units.len() != 1 || !u.symbol().is_empty() {
            rep.violation(
                "C08/dimensionless-unit",
                case(key, "iter_units", json!({})),
                format!("{} unit(s), symbol {:?}", units.len(), u.symbol()),
                "exactly one unit with the empty symbol".into(),
            );
        }
        if Q::unit_from_symbol("") != Some(u) || <Q::UnitType as Unit>::from_symbol("") != Some(u) {
            rep.violation(
                "C08/dimensionless-unit",
                case(key, "unit_from_symbol(\"\")", json!({})),
                format!("{:?} / {:?}", Q::unit_from_symbol(""), <Q::UnitType as Unit>::from_symbol("")),
                "the only unit, whose symbol is empty, through both lookups".into(),
            );
        }
        rep.inc("dimensionless_clause");
    }
    for &a in &alpha {
        rep.inc("states");
        // construction: constructor, amount * unit, unit * amount
        let built = guard(|| [Q::new(a, u), a * u, u * a]);
        rep.count("transitions", 3);
        let qs = match built {
            Ok(q) => q,
            Err(p) => {
                rep.violation("C08/panic", case(key, "construct", json!({"amount": amt::show(a), "unit": b.vname(iu)})), format!("panic: {p}"), "a value".into());
                continue;
            }
        };
        for (form, q) in ["new", "amount*unit", "unit*amount"].iter().zip(qs.iter()) {
            if !amt::same(q.amount(), a) || q.unit() != u {
                rep.violation(
                    "C08/construction",
                    case(key, form, json!({"amount": amt::show(a), "unit": b.vname(iu)})),
                    format!("{} {:?}", amt::show(q.amount()), q.unit()),
                    format!("{} {:?}", amt::show(a), u),
                );
            }
        }
        rep.inc("sensitive");
        let q = qs[0];
        for &k in &alpha {
            for (i, form) in ["k*q", "q*k", "q/k"].iter().enumerate() {
                rep.inc("transitions");
                let own = guard(|| match i {
                    0 => k * a,
                    1 => a * k,
                    _ => a / k,
                });
                // multiplication is commutative in value; Decimal's representation (digit count) of 1.0 * 1 and
                // 1 * 1.0 differs, and the statement does not fix the operand order: accept either
                let own_commuted = if i < 2 { guard(|| if i == 0 { a * k } else { k * a }).ok() } else { None };
                let got = guard(|| {
                    let r: Q = match i {
                        0 => k * q,
                        1 => q * k,
                        _ => q / k,
                    };
                    (r.amount(), r.unit())
                });
                let mk_case = || case(key, form, json!({"q": show_q(a, b.vname(iu)), "k": amt::show(k)}));
                match (own, got) {
                    (Ok(o), Ok((ga, gu))) => {
                        rep.inc("sensitive");
                        if !amt::same(o, ga) && !own_commuted.map(|c| amt::same(c, ga)).unwrap_or(false) {
                            rep.violation("C08/scaled-amount", mk_case(), amt::show(ga), amt::show(o));
                        }
                        if gu != u {
                            rep.violation("C08/scaled-unit", mk_case(), format!("{:?}", gu), format!("{:?}", u));
                        }
                    }
                    (Err(_), Err(_)) => rep.inc("amount_type_panics_mirrored"),
                    (Ok(o), Err(p)) => rep.violation("C08/panic", mk_case(), format!("panic: {p}"), amt::show(o)),
                    (Err(p), Ok((ga, _))) => {
                        rep.violation("C08/no-panic-where-amount-op-panics", mk_case(), amt::show(ga), format!("panic: {p}"))
                    }
                }
            }
        }
    }
    rep.sample(json!({"type": key, "unit": b.vname(iu), "amounts": alpha.len(), "scalars": alpha.len(),
        "example": format!("{} * ({} {})", amt::show(alpha[3]), amt::show(alpha[8]), b.vname(iu))}));
}
