//! C14 - table-driven conversions apply the declared affine map.
use super::common::*;
use crate::amt::{self, A};
use crate::core::*;
use crate::gen::syn::synnoref::{SynNoRef, SynNoRefUnit};
use qv_model::calc::{ErrVal, HALF_Q, U};
use qv_model::Rat;
use quantities::temperature::{Temperature, TemperatureUnit, TEMPERATURE_CONVERTER};
use quantities::{ConversionTable, Converter, Quantity};
use serde_json::json;
use std::collections::HashSet;

pub fn collect(blocks: &mut Vec<Block>, setup: &mut Report) {
    let Some(bs) = bind_or_fail::<SynNoRef>("syn.SynNoRef", setup) else { return };
    let Some(bt) = bind_or_fail::<Temperature>("main.Temperature", setup) else { return };
    // (a) all tables with N = 0..3 entries; split by the first entry so that the work spreads over threads
    let b0 = bs.clone();
    blocks.push(Block::new("C14/tables/N<=1".into(), move |rep| tables_small(b0, rep)));
    let bp = bs.clone();
    blocks.push(Block::new("C14/tables/poison-rows".into(), move |rep| tables_poison(bp, rep)));
    for first in 0..entry_kinds(&bs).len() {
        let b = bs.clone();
        blocks.push(Block::new(format!("C14/tables/first-entry-{first}"), move |rep| tables_from(b, first, rep)));
    }
    // (b) the predefined temperature table
    for iu in 0..bt.n() {
        let b = bt.clone();
        blocks.push(Block::new(format!("C14/temperature/{}", bt.vname(iu)), move |rep| temperature(b, iu, rep)));
    }
}

type Entry = (SynNoRefUnit, SynNoRefUnit, A, A);

/// the table reached through a generic bound, i.e. through the `Converter` trait and not through whatever method of
/// the concrete type method-call syntax may resolve to
fn via_bound<Q: Quantity, C: Converter<Q>>(c: C, q: &Q, to: Q::UnitType) -> Option<Q> {
    c.convert(q, to)
}

/// 9 (from, to) pairs including from = to  x  3 (factor, offset) kinds
fn entry_kinds(b: &Bind<SynNoRef>) -> Vec<Entry> {
    let maps = [("1", "0"), ("2", "0.5"), ("-1.8", "32")];
    let mut out = Vec::new();
    // rows over the first three units (27 entry kinds); conversions are asked for all units of the type, so the other
    // units exercise the "no such entry" and same-unit clauses
    let row_units = &b.units[..b.units.len().min(3)];
    for &f in row_units {
        for &t in row_units {
            for (fa, of) in maps {
                out.push((f, t, amt::parse(fa), amt::parse(of)));
            }
        }
    }
    out
}

fn amounts() -> Vec<A> {
    let mut v: Vec<A> = ["0", "1", "-17.4", "123456.789"].iter().map(|s| amt::parse(s)).collect();
    // the roots of the two affine maps with an offset (x*2+0.5 and x*-1.8+32), where a result near zero arises, and
    // amounts a relative 1e-7 beside them
    for s in ["-0.25", "-0.250000025", "17.77777777777778", "17.7777795"] {
        v.push(amt::parse(s));
    }
    v
}

/// Unit identity as the oracle sees it: the enum discriminant, NOT the unit type's own `==` (which is part of the
/// code under test: a `PartialEq` that identifies two units sharing a symbol - seed r7-C14 - must not leak into the
/// expectation).
fn same_unit<T>(a: &T, b: &T) -> bool {
    core::mem::discriminant(a) == core::mem::discriminant(b)
}

/// the statement, literally
fn expected(entries: &[Entry], a: A, from: SynNoRefUnit, to: SynNoRefUnit) -> Option<(A, SynNoRefUnit)> {
    if same_unit(&from, &to) {
        return Some((a, to));
    }
    entries.iter().find(|e| same_unit(&e.0, &from) && same_unit(&e.1, &to)).map(|e| (a * e.2 + e.3, to))
}

/// a fused multiply-add is an equally faithful evaluation of amount x factor + offset (binary back-end)
#[cfg(not(feature = "dec"))]
fn fused_ok(entries: &[Entry], a: A, from: SynNoRefUnit, to: SynNoRefUnit, got: A) -> bool {
    entries.iter().find(|e| same_unit(&e.0, &from) && same_unit(&e.1, &to)).map(|e| amt::same(a.mul_add(e.2, e.3), got)).unwrap_or(false)
}
#[cfg(feature = "dec")]
fn fused_ok(_entries: &[Entry], _a: A, _from: SynNoRefUnit, _to: SynNoRefUnit, _got: A) -> bool {
    false
}

fn judge_table(entries: &[Entry], got: impl Fn(&SynNoRef, SynNoRefUnit) -> Option<SynNoRef>, b: &Bind<SynNoRef>, rep: &mut Report) {
    rep.inc("tables");
    for (i, &from) in b.units.iter().enumerate() {
        for (j, &to) in b.units.iter().enumerate() {
            for a in amounts() {
                rep.inc("states");
                rep.inc("transitions");
                let q = SynNoRef::new(a, from);
                // the oracle evaluates ONLY the matching row; where the amount type's own x*f+o panics (Decimal
                // overflow of a "poison" row that is asked for) a panic is the expected outcome
                let want = match guard(|| expected(entries, a, from, to)) {
                    Ok(w) => w,
                    Err(_) => {
                        if guard(|| got(&q, to).map(|r| (r.amount(), r.unit()))).is_err() {
                            rep.inc("amount_type_panics_mirrored");
                        } else {
                            rep.violation("C14/no-panic-where-amount-op-panics", case("syn.SynNoRef", "ConversionTable::convert", json!({"value": show_q(a, b.vname(i)), "to": b.vname(j)})), "a value".into(), "the panic of amount x factor + offset".into());
                        }
                        continue;
                    }
                };
                let g = guard(|| got(&q, to).map(|r| (r.amount(), r.unit())));
                let ok = match (&g, &want) {
                    (Ok(None), None) => {
                        rep.inc("no_entry_cases");
                        true
                    }
                    (Ok(Some((ga, gu))), Some((wa, wu))) => {
                        if i == j {
                            rep.inc("same_unit_cases");
                        } else {
                            rep.inc("mapped_cases");
                            if entries.iter().filter(|e| same_unit(&e.0, &from) && same_unit(&e.1, &to)).count() > 1 {
                                rep.inc("shadowed_entry_cases");
                            }
                        }
                        same_unit(gu, wu) && (amt::same(*ga, *wa) || (i != j && fused_ok(entries, a, from, to, *ga)))
                    }
                    _ => false,
                };
                rep.inc("sensitive");
                if !ok {
                    rep.violation(
                        if i == j { "C14/same-unit" } else if want.is_none() { "C14/missing-entry" } else { "C14/first-matching-entry" },
                        case("syn.SynNoRef", "ConversionTable::convert", json!({
                            "table": entries.iter().map(|e| format!("{:?}->{:?}: x*{}+{}", e.0, e.1, e.2, e.3)).collect::<Vec<_>>(),
                            "value": show_q(a, b.vname(i)), "to": b.vname(j)})),
                        format!("{:?}", g.map(|o| o.map(|(x, u)| format!("{} {:?}", amt::show(x), u)))),
                        format!("{:?}", want.map(|(x, u)| format!("{} {:?}", amt::show(x), u))),
                    );
                }
            }
        }
    }
}

fn tables_small(b: Bind<SynNoRef>, rep: &mut Report) {
    let kinds = entry_kinds(&b);
    rep.count("entry_kinds", kinds.len() as u64);
    judge_table(&[], |q, to| ConversionTable::<SynNoRef, 0> { mappings: [] }.convert(q, to), &b, rep);
    for &e in &kinds {
        // three entry points: method-call syntax, the fully qualified trait method, a generic bound
        judge_table(&[e], |q, to| ConversionTable::<SynNoRef, 1> { mappings: [e] }.convert(q, to), &b, rep);
        judge_table(&[e], |q, to| <ConversionTable<SynNoRef, 1> as Converter<SynNoRef>>::convert(ConversionTable::<SynNoRef, 1> { mappings: [e] }, q, to), &b, rep);
        judge_table(&[e], |q, to| via_bound(ConversionTable::<SynNoRef, 1> { mappings: [e] }, q, to), &b, rep);
    }
    judge_table(&[], |q, to| via_bound(ConversionTable::<SynNoRef, 0> { mappings: [] }, q, to), &b, rep);
    rep.sample(json!({"tables": "N=0 and all 27 tables with N=1"}));
}

/// Tables with a "poison" row - an affine map that overflows the Decimal representation for some amounts of the
/// alphabet (and is merely huge under f64) - at every position next to one or two ordinary rows: a request that the
/// poison row does not serve must be answered by its own row (or `None`) as if the poison row were not there.
fn tables_poison(b: Bind<SynNoRef>, rep: &mut Report) {
    let kinds = entry_kinds(&b);
    let u = &b.units;
    let poison: [Entry; 2] = [
        (u[0], u[1], amt::parse("1e17"), amt::parse("0.000000000000000001")),
        (u[2], u[0], amt::parse("-99999999999999999"), amt::parse("0.000000000000000273")),
    ];
    for &p in &poison {
        judge_table(&[p], |q, to| via_bound(ConversionTable::<SynNoRef, 1> { mappings: [p] }, q, to), &b, rep);
        for &e in &kinds {
            judge_table(&[p, e], |q, to| via_bound(ConversionTable::<SynNoRef, 2> { mappings: [p, e] }, q, to), &b, rep);
            judge_table(&[e, p], |q, to| via_bound(ConversionTable::<SynNoRef, 2> { mappings: [e, p] }, q, to), &b, rep);
            rep.count("poison_tables", 2);
            for &e2 in kinds.iter().step_by(if thorough() { 1 } else { 4 }) {
                judge_table(&[p, e, e2], |q, to| via_bound(ConversionTable::<SynNoRef, 3> { mappings: [p, e, e2] }, q, to), &b, rep);
                judge_table(&[e, p, e2], |q, to| via_bound(ConversionTable::<SynNoRef, 3> { mappings: [e, p, e2] }, q, to), &b, rep);
                judge_table(&[e, e2, p], |q, to| via_bound(ConversionTable::<SynNoRef, 3> { mappings: [e, e2, p] }, q, to), &b, rep);
                rep.count("poison_tables", 3);
            }
        }
    }
    rep.sample(json!({"poison rows": poison.iter().map(|e| format!("{:?}->{:?}: x*{}+{}", e.0, e.1, amt::show(e.2), amt::show(e.3))).collect::<Vec<_>>()}));
}

fn tables_from(b: Bind<SynNoRef>, first: usize, rep: &mut Report) {
    let kinds = entry_kinds(&b);
    let e0 = kinds[first];
    for &e1 in &kinds {
        judge_table(&[e0, e1], |q, to| via_bound(ConversionTable::<SynNoRef, 2> { mappings: [e0, e1] }, q, to), &b, rep);
        for &e2 in &kinds {
            judge_table(&[e0, e1, e2], |q, to| via_bound(ConversionTable::<SynNoRef, 3> { mappings: [e0, e1, e2] }, q, to), &b, rep);
            if thorough() {
                for &e3 in &kinds {
                    judge_table(&[e0, e1, e2, e3], |q, to| via_bound(ConversionTable::<SynNoRef, 4> { mappings: [e0, e1, e2, e3] }, q, to), &b, rep);
                }
            }
        }
    }
    if first == 5 {
        rep.sample(json!({"table": format!("{:?}", [e0, kinds[7], kinds[5]]), "rule": "all 27 + 27*27 continuations of this first entry"}));
    }
}

// ---------------------------------------------------------------------------------------------

/// exact affine map (factor, offset) between two temperature units, by variant name
fn exact_map(from: &str, to: &str) -> (Rat, Rat) {
    let r = |s: &str| Rat::parse(s).unwrap();
    match (from, to) {
        ("Kelvin", "DegreeCelsius") => (r("1"), r("-273.15")),
        ("DegreeCelsius", "Kelvin") => (r("1"), r("273.15")),
        ("Kelvin", "DegreeFahrenheit") => (r("9/5"), r("-459.67")),
        ("DegreeFahrenheit", "Kelvin") => (r("5/9"), r("459.67").mul(&r("5/9"))),
        ("DegreeCelsius", "DegreeFahrenheit") => (r("9/5"), r("32")),
        ("DegreeFahrenheit", "DegreeCelsius") => (r("5/9"), r("-160/9")),
        _ => (r("1"), r("0")),
    }
}

/// a table literal: correctly rounded double, or a decimal literal with 18 fractional digits
fn literal(v: Rat) -> ErrVal {
    let a = v.abs().to_f64();
    let e = match BE {
        qv_model::Backend::F64 => a * U * 1.01 + 1e-300,
        qv_model::Backend::Dec => 2.0 * HALF_Q,
    };
    ErrVal { v, e }
}

fn map_spec(x: &ErrVal, from: &str, to: &str) -> ErrVal {
    if from == to {
        return x.clone();
    }
    let (f, o) = exact_map(from, to);
    x.mul(&literal(f), BE).add(&literal(o), BE)
}

fn temperature(b: Bind<Temperature>, iu: usize, rep: &mut Report) {
    let key = "main.Temperature";
    let mut seeds = amt::alphabet_v(tier());
    for s in ["-459.67", "-273.15", "-40", "32", "100", "273.15", "373.15", "1e6", "255.372222222222222222", "0.01"] {
        seeds.push(amt::parse(s));
    }
    let seeds = amt::dedup(seeds);
    let depth = 3;
    let mut visited: HashSet<(usize, (i128, i32))> = HashSet::new();
    let mut frontier: Vec<(usize, A)> = Vec::new();
    for &a in &seeds {
        if visited.insert((iu, amt::key(a))) {
            frontier.push((iu, a));
        }
    }
    let conv = |a: A, i: usize, j: usize| -> Result<Option<(A, TemperatureUnit)>, String> {
        guard(|| TEMPERATURE_CONVERTER.convert(&Temperature::new(a, b.units[i]), b.units[j]).map(|r| (r.amount(), r.unit())))
    };
    for level in 0..depth {
        let mut next = Vec::new();
        for &(i, a) in &frontier {
            rep.inc("states");
            for j in 0..b.n() {
                rep.inc("transitions");
                let mk = || case(key, "TEMPERATURE_CONVERTER.convert", json!({"value": show_q(a, b.vname(i)), "to": b.vname(j)}));
                let ar = rat_of(a).unwrap();
                let spec = map_spec(&ErrVal::exact(ar.clone()), b.vname(i), b.vname(j));
                let dom = in_domain(&ar) && in_domain(&spec.v);
                // the trait method (reached through a generic bound) must answer exactly like method-call syntax
                if level == 0 {
                    rep.inc("transitions");
                    let by_method = conv(a, i, j);
                    let by_trait = guard(|| via_bound(TEMPERATURE_CONVERTER, &Temperature::new(a, b.units[i]), b.units[j]).map(|r| (r.amount(), r.unit())));
                    let same = match (&by_method, &by_trait) {
                        (Ok(Some((x, u))), Ok(Some((y, v)))) => amt::same(*x, *y) && same_unit(u, v),
                        (Ok(None), Ok(None)) | (Err(_), Err(_)) => true,
                        _ => false,
                    };
                    if !same {
                        rep.violation("C14/entry-points-disagree", mk(), format!("Converter::convert: {:?}", by_trait.map(|o| o.map(|(x, u)| format!("{} {:?}", amt::show(x), u)))),
                            format!("as by method-call syntax: {:?}", by_method.map(|o| o.map(|(x, u)| format!("{} {:?}", amt::show(x), u)))));
                    }
                }
                match conv(a, i, j) {
                    Err(p) => {
                        if dom || amt::BACKEND_NAME == "f64" {
                            rep.violation("C14/panic", mk(), format!("panic: {p}"), spec.v.show());
                        } else {
                            rep.inc("out_of_domain_panics");
                        }
                    }
                    Ok(None) => rep.violation("C14/temperature-pair-missing", mk(), "None".into(), format!("{} {}", spec.v.show(), b.vname(j))),
                    Ok(Some((ra, ru))) => {
                        if !same_unit(&ru, &b.units[j]) {
                            rep.violation("C14/temperature-unit", mk(), format!("{:?}", ru), format!("{:?}", b.units[j]));
                        }
                        if i == j {
                            rep.inc("same_unit_cases");
                            if !amt::same(ra, a) {
                                rep.violation("C14/same-unit", mk(), amt::show(ra), amt::show(a));
                            }
                        } else if dom {
                            rep.inc("value_checked");
                            if !rat_of(ra).map(|o| spec.within(&o)).unwrap_or(false) {
                                rep.violation("C14/temperature-formula", mk(), amt::show(ra), format!("{} +- {:e}", spec.v.show(), spec.tol()));
                            } else if level == 0 && !spec.v.is_zero() && spec.rel_tol() <= SENSITIVE_REL {
                                rep.inc("sensitive");
                            }
                        } else {
                            rep.inc("out_of_domain");
                        }
                        if level + 1 < depth && i != j && amt::is_finite(ra) && visited.insert((j, amt::key(ra))) {
                            next.push((j, ra));
                        }
                    }
                }
            }
        }
        frontier = next;
    }
    // path oracles from every seed: u -> v -> u is the identity, u -> v -> w agrees with u -> w
    for &a in &seeds {
        let ar = rat_of(a).unwrap();
        if !in_domain(&ar) {
            continue;
        }
        for j in 0..b.n() {
            if j == iu {
                continue;
            }
            let Ok(Some((a1, _))) = conv(a, iu, j) else { continue };
            let s1 = map_spec(&ErrVal::exact(ar.clone()), b.vname(iu), b.vname(j));
            for w in 0..b.n() {
                if w == j {
                    continue;
                }
                let Ok(Some((a2, _))) = conv(a1, j, w) else { continue };
                rep.inc("paths_depth2");
                let s2 = map_spec(&s1, b.vname(j), b.vname(w));
                if !in_domain(&s1.v) || !in_domain(&s2.v) {
                    continue;
                }
                // the exact composition equals the direct map (or the identity)
                let direct = map_spec(&ErrVal::exact(ar.clone()), b.vname(iu), b.vname(w));
                debug_assert!(direct.v.sub(&s2.v).is_zero());
                if !rat_of(a2).map(|o| s2.within(&o)).unwrap_or(false) {
                    rep.violation(
                        if w == iu { "C14/temperature-round-trip" } else { "C14/temperature-composition" },
                        case(key, "convert;convert", json!({"value": show_q(a, b.vname(iu)), "path": [b.vname(iu), b.vname(j), b.vname(w)]})),
                        amt::show(a2),
                        format!("{} +- {:e}", s2.v.show(), s2.tol()),
                    );
                }
            }
        }
    }
    rep.sample(json!({"temperature": b.vname(iu), "seeds": seeds.len(), "depth": depth}));
}
