//! C02 - cross-unit comparison is physically correct and order-independent.
use super::common::*;
use crate::amt::{self, A};
use crate::core::*;
use qv_model::Rat;
use quantities::{HasRefUnit, LinearScaledUnit};
use serde_json::json;
use std::cmp::Ordering;

pub fn collect(blocks: &mut Vec<Block>, setup: &mut Report) {
    crate::for_each_ref_type!(add_type, blocks, setup);
}

fn add_type<Q>(key: &str, blocks: &mut Vec<Block>, setup: &mut Report)
where
    Q: HasRefUnit + QB + PartialEq + PartialOrd,
    Q::UnitType: LinearScaledUnit + UB,
{
    let Some(b) = bind_or_fail::<Q>(key, setup) else { return };
    setup.inc("types");
    for iu in 0..b.n() {
        let bb = b.clone();
        blocks.push(Block::new(format!("C02/{}/{}", key, b.vname(iu)), move |rep| block::<Q>(bb, iu, rep)));
    }
}

#[derive(Clone, Copy, PartialEq, Debug)]
struct Rel {
    eq: bool,
    ne: bool,
    lt: bool,
    le: bool,
    gt: bool,
    ge: bool,
    pc: Option<Ordering>,
}

fn rels<T: PartialEq + PartialOrd>(x: &T, y: &T) -> Rel {
    Rel { eq: x == y, ne: x != y, lt: x < y, le: x <= y, gt: x > y, ge: x >= y, pc: PartialOrd::partial_cmp(x, y) }
}

fn rel_of_order(o: Ordering) -> Rel {
    Rel {
        eq: o == Ordering::Equal,
        ne: o != Ordering::Equal,
        lt: o == Ordering::Less,
        le: o != Ordering::Greater,
        gt: o == Ordering::Greater,
        ge: o != Ordering::Less,
        pc: Some(o),
    }
}

fn block<Q>(b: Bind<Q>, iu: usize, rep: &mut Report)
where
    Q: HasRefUnit + QB + PartialEq + PartialOrd,
    Q::UnitType: LinearScaledUnit + UB,
{
    let key = b.tm.key.as_str();
    let v_alpha = amt::alphabet_v(tier());
    let specials = amt::alphabet_s();
    let mut a_alpha = v_alpha.clone();
    a_alpha.extend(specials.iter().copied());
    let a_alpha = amt::dedup(a_alpha);
    for iv in 0..b.n() {
        let (uu, uv) = (b.units[iu], b.units[iv]);
        let (mu, mv) = (b.um(iu), b.um(iv));
        let (su, sv) = (mu.scale.as_ref().unwrap(), mv.scale.as_ref().unwrap());
        let cross = iu != iv;
        for &a in &a_alpha {
            // right operands: the whole alphabet, the specials, and the same-magnitude partner of a in v
            // with its neighbours (forces the collisions the property is about)
            let mut bs = a_alpha.clone();
            bs.extend(same_magnitude_partners(a, mv, mu, 1));
            let bs = amt::dedup(bs);
            let ar = rat_of(a);
            for &bb in &bs {
                rep.inc("states");
                let mk_case = || {
                    case(key, "compare", json!({"a": show_q(a, b.vname(iu)), "b": show_q(bb, b.vname(iv))}))
                };
                let qa = Q::new(a, uu);
                let qb = Q::new(bb, uv);
                // a value compared with ITSELF (one object on both sides) reduces to the amount type's own comparison
                if !cross && amt::same(a, bb) {
                    rep.count("transitions", 4);
                    #[allow(clippy::eq_op)]
                    let own = guard(|| (qa == qa, qa != qa, PartialOrd::partial_cmp(&qa, &qa), <Q as HasRefUnit>::eq(&qa, &qa), <Q as HasRefUnit>::partial_cmp(&qa, &qa)));
                    #[allow(clippy::eq_op)]
                    let want = (a == a, a != a, PartialOrd::partial_cmp(&a, &a), a == a, PartialOrd::partial_cmp(&a, &a));
                    match own {
                        Ok(got) if got == want => rep.inc("self_comparisons"),
                        Ok(got) => rep.violation("C02/same-object", mk_case(), format!("{:?}", got), format!("{:?}", want)),
                        Err(p) => rep.violation("C02/panic", mk_case(), format!("panic: {p}"), format!("{:?}", want)),
                    }
                }
                let r = guard(|| (rels(&qa, &qb), rels(&qb, &qa)));
                rep.count("transitions", 14);
                // second entry point: the trait methods the operators forward to must give the same answers
                let m = guard(|| {
                    (
                        <Q as HasRefUnit>::eq(&qa, &qb),
                        <Q as HasRefUnit>::partial_cmp(&qa, &qb),
                        <Q as HasRefUnit>::eq(&qb, &qa),
                        <Q as HasRefUnit>::partial_cmp(&qb, &qa),
                    )
                });
                rep.count("transitions", 4);
                if let (Ok((ab, ba)), Ok((e1, p1, e2, p2))) = (&r, &m) {
                    if *e1 != ab.eq || *p1 != ab.pc || *e2 != ba.eq || *p2 != ba.pc {
                        rep.violation(
                            "C02/trait-methods-disagree-with-operators",
                            case(key, "HasRefUnit::eq / partial_cmp", json!({"a": show_q(a, b.vname(iu)), "b": show_q(bb, b.vname(iv))})),
                            format!("methods: {e1} {:?} / {e2} {:?}", p1, p2),
                            format!("operators: {} {:?} / {} {:?}", ab.eq, ab.pc, ba.eq, ba.pc),
                        );
                    }
                }
                let (ab, ba) = match r {
                    Ok(x) => x,
                    Err(p) => {
                        // f64 never panics; Decimal must not panic inside the magnitude precondition of C18
                        let in_dom = match (ar.as_ref(), rat_of(bb)) {
                            (Some(x), Some(y)) => {
                                conv_spec_in_domain(x, mu, mv).is_some() && conv_spec_in_domain(&y, mv, mu).is_some()
                            }
                            _ => false,
                        };
                        if in_dom || amt::BACKEND_NAME == "f64" {
                            rep.violation("C02/panic", mk_case(), format!("panic: {p}"), "comparison results".into());
                        } else {
                            rep.inc("out_of_domain_panics");
                        }
                        continue;
                    }
                };
                match ab.pc {
                    Some(Ordering::Less) => rep.inc("outcome_lt"),
                    Some(Ordering::Greater) => rep.inc("outcome_gt"),
                    Some(Ordering::Equal) => rep.inc("outcome_eq"),
                    None => rep.inc("outcome_unordered"),
                }
                let nan = amt::is_nan(a) || amt::is_nan(bb);
                // (iii) equal units: exactly the amount type's own comparison
                if !cross {
                    let own = rels(&a, &bb);
                    if ab != own {
                        rep.violation("C02/same-unit-differs-from-amount-comparison", mk_case(), format!("{:?}", ab), format!("{:?}", own));
                    }
                    rep.inc("same_unit_cases");
                }
                // (i) order independence for all non-NaN amounts
                if !nan {
                    let consistent = ab.eq == ba.eq
                        && ab.ne == ba.ne
                        && ab.lt == ba.gt
                        && ab.gt == ba.lt
                        && ab.le == ba.ge
                        && ab.ge == ba.le
                        && ab.pc == ba.pc.map(|o| o.reverse())
                        && (ab.pc == Some(Ordering::Equal)) == ab.eq
                        && (ba.pc == Some(Ordering::Equal)) == ba.eq
                        && ab.ne != ab.eq;
                    rep.inc("order_independence_checked");
                    if !consistent {
                        rep.violation(
                            "C02/order-dependent",
                            mk_case(),
                            format!("a?b: {:?}; b?a: {:?}", ab, ba),
                            "a==b <=> b==a, a<b <=> b>a, partial_cmp(a,b) == partial_cmp(b,a).reverse(), Equal <=> ==".into(),
                        );
                    }
                }
                // (ii) physical correctness whenever the magnitudes differ by more than one conversion error
                let (Some(ar), Some(br)) = (ar.as_ref(), rat_of(bb)) else {
                    rep.inc("not_value_checked");
                    continue;
                };
                let (ma, mb) = (ar.mul(su), br.mul(sv));
                let exact = ma.cmp(&mb);
                if cross && exact == Ordering::Equal && scales_differ(mu, mv) {
                    rep.inc("equal_by_construction");
                    rep.inc("sensitive");
                    if rep.get("equal_by_construction") == 1 {
                        rep.sample(json!({"type": key, "a": show_q(a, b.vname(iu)), "b": show_q(bb, b.vname(iv)),
                            "exact": "equal magnitudes", "a?b": format!("{:?}", ab), "b?a": format!("{:?}", ba)}));
                    }
                }
                if !cross {
                    continue;
                }
                let (Some(s_ab), Some(s_ba)) = (conv_spec_in_domain(ar, mu, mv), conv_spec_in_domain(&br, mv, mu)) else {
                    rep.inc("not_value_checked");
                    continue;
                };
                let bound = Rat::from_f64(s_ab.tol())
                    .unwrap()
                    .mul(sv)
                    .abs()
                    .max_with(Rat::from_f64(s_ba.tol()).unwrap().mul(su).abs());
                let diff = ma.sub(&mb).abs();
                if diff.gt(&bound) {
                    rep.inc("decided");
                    rep.inc("sensitive");
                    let want = rel_of_order(exact);
                    if ab != want || ba != rel_of_order(exact.reverse()) {
                        rep.violation(
                            "C02/wrong-order",
                            mk_case(),
                            format!("a?b: {:?}; b?a: {:?}", ab, ba),
                            format!("exact order of magnitudes {} vs {}: {:?}", ma.show(), mb.show(), exact),
                        );
                    }
                } else {
                    rep.inc("within_one_conversion_error");
                }
            }
        }
    }
}

trait MaxWith {
    fn max_with(self, o: Rat) -> Rat;
}
impl MaxWith for Rat {
    fn max_with(self, o: Rat) -> Rat {
        if self.ge(&o) {
            self
        } else {
            o
        }
    }
}
