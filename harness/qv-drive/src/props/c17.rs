//! C17 - serialisation round-trips values exactly.
use crate::amt::{self, A};
use super::history::{call, Call};
use crate::core::*;
use quantities::Quantity;
use serde::de::DeserializeOwned;
use serde::Serialize;
use serde_json::{json, Value};
use std::collections::HashMap;

pub fn collect(blocks: &mut Vec<Block>, setup: &mut Report) {
    crate::for_each_serde_type!(add_type, blocks, setup);
    super::history::collect_for("C17", blocks, setup);
}

/// the deserialisation calls of the shared history alphabet (props/history.rs)
pub fn history_calls(calls: &mut Vec<Call>) {
    crate::for_each_serde_type!(add_calls, calls);
}

fn add_calls<Q>(key: &str, calls: &mut Vec<Call>)
where
    Q: Quantity + QB + Serialize + DeserializeOwned,
    Q::UnitType: UB + Serialize + DeserializeOwned,
{
    let Ok(b) = bind::<Q>(key) else { return };
    for i in 0..b.n() {
        let name = b.vname(i).to_string();
        let text = format!("\"{name}\"");
        let t2 = text.clone();
        // the unit from JSON text
        calls.push(call(&["C17"], format!("from_str::<{key} unit>({text})"), move || match serde_json::from_str::<Q::UnitType>(&t2) {
            Ok(u) => format!("{:?}", u),
            Err(e) => format!("error: {e}"),
        }).rep_if(i == 0));
        // a value in that unit through the data-model tree (serialised by the implementation itself)
        let q = Q::new(amt::parse("2.5"), b.units[i]);
        if let Ok(Ok(v)) = guard(|| serde_json::to_value(q)) {
            let v2 = v.clone();
            calls.push(call(&["C17"], format!("from_value::<{key}>({v})"), move || match serde_json::from_value::<Q>(v2.clone()) {
                Ok(r) => format!("{} {:?}", amt::show(r.amount()), r.unit()),
                Err(e) => format!("error: {e}"),
            }));
            calls.push(call(&["C17"], format!("to_string(2.5 {key}::{name})"), move || format!("{:?}", serde_json::to_string(&q).map_err(|e| e.to_string()))));
        }
    }
}

fn add_type<Q>(key: &str, blocks: &mut Vec<Block>, setup: &mut Report)
where
    Q: Quantity + QB + Serialize + DeserializeOwned,
    Q::UnitType: UB + Serialize + DeserializeOwned,
{
    let Some(b) = bind_or_fail::<Q>(key, setup) else { return };
    setup.inc("types");
    setup.count("units", b.n() as u64);
    if b.tm.universe == "main" {
        setup.count("catalogue_units", b.n() as u64);
    }
    blocks.push(Block::new(format!("C17/{key}"), move |rep| block::<Q>(b, rep)));
}

#[cfg(not(feature = "dec"))]
fn adversarial() -> Vec<A> {
    vec![
        0.1 + 0.2, 5e-324, f64::MAX, -f64::MAX, -0.0, f64::MIN_POSITIVE, 9007199254740993.0, 9007199254740991.0,
        1.0 / 3.0, 123456.78901234567, 2.2250738585072011e-308, 1.7976931348623157e308, 4.35, 0.3, -1e-7, 1e21, 1e-5,
        8.41e21, 2.98023223876953125e-8,
    ]
}
#[cfg(feature = "dec")]
fn adversarial() -> Vec<A> {
    ["0.333333333333333333", "1.50", "1.5", "1.500000000000000000", "99999999999999999", "-0.000000000000000001",
     "-12345678901234567.123456789012345678", "100", "1e2", "0.10", "-0.0", "170141183460469231731.687303715884105727"]
        .iter()
        .map(|s| amt::parse(s))
        .collect()
}

fn block<Q>(b: Bind<Q>, rep: &mut Report)
where
    Q: Quantity + QB + Serialize + DeserializeOwned,
    Q::UnitType: UB + Serialize + DeserializeOwned,
{
    let key = b.tm.key.as_str();
    let mut alpha = amt::alphabet_v(tier());
    alpha.extend(adversarial());
    alpha.extend(amt::alphabet_s().into_iter().filter(|x| amt::is_finite(*x)));
    let alpha = amt::dedup(alpha);
    // serialisation text -> the state that produced it (injectivity over the whole explored set of this type)
    let mut seen: HashMap<String, (usize, (i128, i32))> = HashMap::new();
    for i in 0..b.n() {
        let u = b.units[i];
        // the unit on its own
        rep.inc("states");
        rep.count("transitions", 3);
        let mk_u = |what: &str| case(key, what, json!({"unit": b.vname(i)}));
        match guard(|| serde_json::to_value(u)) {
            Ok(Ok(v)) => {
                if v != Value::String(b.vname(i).to_string()) {
                    rep.violation("C17/unit-representation", mk_u("to_value(unit)"), v.to_string(), format!("\"{}\"", b.vname(i)));
                }
                match guard(|| serde_json::from_value::<Q::UnitType>(v.clone())) {
                    Ok(Ok(back)) if back == u => {}
                    other => rep.violation("C17/unit-round-trip", mk_u("from_value(to_value(unit))"), format!("{:?}", other), format!("{:?}", u)),
                }
            }
            other => rep.violation("C17/unit-representation", mk_u("to_value(unit)"), format!("{:?}", other), format!("\"{}\"", b.vname(i))),
        }
        match guard(|| serde_json::to_string(&u).map(|s| (serde_json::from_str::<Q::UnitType>(&s), s))) {
            Ok(Ok((Ok(back), _))) if back == u => {}
            other => rep.violation("C17/unit-round-trip", mk_u("from_str(to_string(unit))"), format!("{:?}", other), format!("{:?}", u)),
        }
        for &a in &alpha {
            rep.inc("states");
            let q = Q::new(a, u);
            let mk = |what: &str| case(key, what, json!({"value": show_q(a, b.vname(i))}));
            let check = |rep: &mut Report, what: &str, back: Result<Result<Q, String>, String>| {
                rep.inc("transitions");
                match back {
                    Ok(Ok(r)) => {
                        if r.unit() != u || !amt::same(r.amount(), a) {
                            rep.violation("C17/value-round-trip", mk(what), format!("{} {:?}", amt::show(r.amount()), r.unit()), format!("{} {:?}", amt::show(a), u));
                        } else {
                            rep.inc("round_trips_ok");
                        }
                    }
                    Ok(Err(e)) => rep.violation("C17/value-round-trip", mk(what), format!("error: {e}"), format!("{} {:?}", amt::show(a), u)),
                    Err(p) => rep.violation("C17/panic", mk(what), format!("panic: {p}"), format!("{} {:?}", amt::show(a), u)),
                }
            };
            // channel 1: the serde data model as a JSON value tree
            let r1 = guard(|| {
                serde_json::to_value(q).map_err(|e| e.to_string()).and_then(|v| serde_json::from_value::<Q>(v).map_err(|e| e.to_string()))
            });
            check(rep, "from_value(to_value(q))", r1);
            // channel 2: JSON text, read back with an exactly rounding float parser (feature float_roundtrip)
            let text = guard(|| serde_json::to_string(&q).map_err(|e| e.to_string()));
            let r2 = match &text {
                Ok(Ok(t)) => guard(|| serde_json::from_str::<Q>(t).map_err(|e| e.to_string())),
                Ok(Err(e)) => Ok(Err(e.clone())),
                Err(p) => Err(p.clone()),
            };
            check(rep, "from_str(to_string(q))", r2);
            // channel 3: bytes
            let r3 = guard(|| {
                serde_json::to_vec(&q).map_err(|e| e.to_string()).and_then(|v| serde_json::from_slice::<Q>(&v).map_err(|e| e.to_string()))
            });
            check(rep, "from_slice(to_vec(q))", r3);
            // injectivity
            if let Ok(Ok(t)) = text {
                let state = (i, amt::key(a));
                if let Some(prev) = seen.get(&t) {
                    if *prev != state {
                        rep.violation(
                            "C17/not-injective",
                            mk("to_string"),
                            format!("{t} is also the serialisation of unit #{} amount key {:?}", prev.0, prev.1),
                            "different serialisations for values that differ in unit or amount".into(),
                        );
                    }
                } else {
                    if seen.len() == 3 {
                        rep.sample(json!({"type": key, "value": show_q(a, b.vname(i)), "json": t}));
                    }
                    seen.insert(t, state);
                }
                rep.inc("sensitive");
            }
        }
    }
    rep.count("distinct_serialisations", seen.len() as u64);
}
