//! C09 - the unit registry is complete, ordered and invertible (value-space part; the
//! upper-snake-case constants are probed by the program-space explorer, lib/e2_c09.py).
use crate::amt::{self, A};
use crate::core::*;
use quantities::{HasRefUnit, LinearScaledUnit, Quantity, Unit};
use serde_json::json;
use std::collections::BTreeSet;

pub fn collect(blocks: &mut Vec<Block>, setup: &mut Report) {
    crate::for_each_ref_type!(add_ref, blocks, setup);
    crate::for_each_noref_type!(add_noref, blocks, setup);
    crate::for_each_single_type!(add_noref, blocks, setup);
}

fn universe_violation(key: &str, e: String, setup: &mut Report) {
    setup.violation("C09/universe", case(key, "iter_units", json!({})), e, "each declared unit exactly once".into());
}

/// near misses of a symbol: single-character case flips, deletions, duplications, blanks, empty
fn near_misses(sym: &str) -> Vec<String> {
    let chars: Vec<char> = sym.chars().collect();
    let mut out = vec![String::new(), format!(" {sym}"), format!("{sym} "), format!("{sym}{sym}")];
    for i in 0..chars.len() {
        let mut del = chars.clone();
        del.remove(i);
        out.push(del.iter().collect());
        let mut dup = chars.clone();
        dup.insert(i, chars[i]);
        out.push(dup.iter().collect());
        let c = chars[i];
        let flipped: String = if c.is_lowercase() { c.to_uppercase().collect() } else { c.to_lowercase().collect() };
        if flipped != c.to_string() {
            let mut f: Vec<String> = chars.iter().map(|x| x.to_string()).collect();
            f[i] = flipped;
            out.push(f.concat());
        }
    }
    out
}

fn all_model_symbols() -> Vec<String> {
    let mut s = BTreeSet::new();
    for t in &ctx().model.types {
        for u in &t.units {
            s.insert(u.sym.clone());
        }
    }
    s.into_iter().collect()
}

fn common_checks<Q>(b: &Bind<Q>, rep: &mut Report)
where
    Q: Quantity + QB,
    Q::UnitType: UB,
{
    let key = b.tm.key.as_str();
    let want: Vec<&str> = (0..b.n()).map(|i| b.vname(i)).collect();
    // iteration order, through both entry points
    for (what, seq) in [
        ("Quantity::iter_units", guard(|| Q::iter_units().map(|u| format!("{:?}", u)).collect::<Vec<_>>())),
        ("Unit::iter", guard(|| <Q::UnitType as Unit>::iter().map(|u| format!("{:?}", u)).collect::<Vec<_>>())),
    ] {
        rep.inc("transitions");
        rep.inc("sequences");
        match seq {
            Ok(s) if s == want => {}
            Ok(s) => rep.violation("C09/iteration-order", case(key, what, json!({})), format!("{:?}", s), format!("{:?}", want)),
            Err(p) => rep.violation("C09/panic", case(key, what, json!({})), format!("panic: {p}"), format!("{:?}", want)),
        }
    }
    // every unit taken as a quantity is one of itself
    for i in 0..b.n() {
        rep.inc("states");
        rep.inc("transitions");
        let u = b.units[i];
        match guard(|| {
            let q = u.as_qty();
            (q.amount(), q.unit())
        }) {
            Ok((a, gu)) => {
                if !amt::same(a, amt::parse("1")) || gu != u {
                    rep.violation("C09/as-qty", case(key, "as_qty", json!({"unit": b.vname(i)})), format!("{} {:?}", amt::show(a), gu), format!("1 {:?}", u));
                }
            }
            Err(p) => rep.violation("C09/panic", case(key, "as_qty", json!({"unit": b.vname(i)})), format!("panic: {p}"), "1 unit".into()),
        }
    }
    // lookup by symbol: declared symbols, their near misses, every symbol of every other type
    let mut inputs: BTreeSet<String> = BTreeSet::new();
    for i in 0..b.n() {
        inputs.insert(b.um(i).sym.clone());
        inputs.extend(near_misses(&b.um(i).sym));
    }
    inputs.extend(all_model_symbols());
    for s in &inputs {
        rep.inc("states");
        let want = (0..b.n()).find(|&i| &b.um(i).sym == s).map(|i| b.units[i]);
        if want.is_some() {
            rep.inc("symbol_hits");
            rep.inc("sensitive");
        } else {
            rep.inc("symbol_misses");
        }
        for (what, got) in [
            ("Quantity::unit_from_symbol", guard(|| Q::unit_from_symbol(s))),
            ("Unit::from_symbol", guard(|| <Q::UnitType as Unit>::from_symbol(s))),
        ] {
            rep.inc("transitions");
            match got {
                Ok(g) if g == want => {}
                Ok(g) => rep.violation("C09/lookup-by-symbol", case(key, what, json!({"symbol": s})), format!("{:?}", g), format!("{:?}", want)),
                Err(p) => rep.violation("C09/panic", case(key, what, json!({"symbol": s})), format!("panic: {p}"), format!("{:?}", want)),
            }
        }
    }
}

fn add_noref<Q>(key: &str, blocks: &mut Vec<Block>, setup: &mut Report)
where
    Q: Quantity + QB,
    Q::UnitType: UB,
{
    match bind::<Q>(key) {
        Err(e) => universe_violation(key, e, setup),
        Ok(b) => {
            setup.inc("types");
            setup.count("units", b.n() as u64);
            blocks.push(Block::new(format!("C09/{key}"), move |rep| {
                common_checks(&b, rep);
                rep.sample(json!({"type": b.tm.key, "expected name order": (0..b.n()).map(|i| b.um(i).name.clone()).collect::<Vec<_>>()}));
            }));
        }
    }
}

fn add_ref<Q>(key: &str, blocks: &mut Vec<Block>, setup: &mut Report)
where
    Q: HasRefUnit + QB,
    Q::UnitType: LinearScaledUnit + UB,
{
    match bind::<Q>(key) {
        Err(e) => universe_violation(key, e, setup),
        Ok(b) => {
            setup.inc("types");
            setup.count("units", b.n() as u64);
            blocks.push(Block::new(format!("C09/{key}"), move |rep| {
                common_checks(&b, rep);
                ref_checks(&b, rep);
            }));
        }
    }
}

fn ref_checks<Q>(b: &Bind<Q>, rep: &mut Report)
where
    Q: HasRefUnit + QB,
    Q::UnitType: LinearScaledUnit + UB,
{
    let key = b.tm.key.as_str();
    let scales: Vec<A> = (0..b.n()).map(|i| b.units[i].scale()).collect();
    // exactly one reference unit, it has scale one
    let refs: Vec<usize> = (0..b.n()).filter(|&i| b.units[i].is_ref_unit()).collect();
    rep.inc("transitions");
    if refs.len() != 1 || Some(refs[0]) != b.tm.ref_index() || !(scales[refs[0]] == amt::parse("1")) {
        rep.violation(
            "C09/reference-unit",
            case(key, "is_ref_unit", json!({})),
            format!("{:?}", refs.iter().map(|&i| (b.vname(i), amt::show(scales[i]))).collect::<Vec<_>>()),
            format!("exactly [{:?}] with scale 1", b.tm.ref_variant),
        );
    }
    if <Q as HasRefUnit>::REF_UNIT != b.units[b.tm.ref_index().unwrap()] || <Q::UnitType as LinearScaledUnit>::REF_UNIT != <Q as HasRefUnit>::REF_UNIT {
        rep.violation("C09/reference-unit", case(key, "REF_UNIT", json!({})), format!("{:?}", <Q as HasRefUnit>::REF_UNIT), format!("{:?}", b.tm.ref_variant));
    }
    // non-decreasing scale order as reported by the implementation itself
    for i in 1..b.n() {
        if scales[i - 1] > scales[i] {
            rep.violation("C09/iteration-order", case(key, "scale order", json!({"units": [b.vname(i - 1), b.vname(i)]})), format!("{} > {}", amt::show(scales[i - 1]), amt::show(scales[i])), "non-decreasing scales".into());
        }
    }
    // lookup by scale: declared scales (reported and from the definition table), their neighbours, zero,
    // negations, NaN
    let mut inputs: Vec<A> = Vec::new();
    for i in 0..b.n() {
        inputs.extend(amt::neighbourhood(scales[i], 1));
        inputs.push(amt::neg(scales[i]));
        if let Some(lit) = b.um(i).scale.as_ref().and_then(|s| s.to_decimal_string(18)) {
            inputs.push(amt::parse(&lit));
        }
    }
    inputs.push(amt::parse("0"));
    inputs.extend(amt::alphabet_s());
    let mut seen = std::collections::HashSet::new();
    let inputs: Vec<A> = inputs.into_iter().filter(|x| seen.insert(amt::key(*x)) || amt::is_nan(*x)).collect();
    for &x in &inputs {
        rep.inc("states");
        let want = (0..b.n()).find(|&i| scales[i] == x).map(|i| b.units[i]);
        if want.is_some() {
            rep.inc("scale_hits");
            rep.inc("sensitive");
        } else {
            rep.inc("scale_misses");
        }
        for (what, got) in [
            ("HasRefUnit::unit_from_scale", guard(|| Q::unit_from_scale(x))),
            ("LinearScaledUnit::from_scale", guard(|| <Q::UnitType as LinearScaledUnit>::from_scale(x))),
        ] {
            rep.inc("transitions");
            match got {
                Ok(g) if g == want => {}
                Ok(g) => rep.violation("C09/lookup-by-scale", case(key, what, json!({"scale": amt::show(x)})), format!("{:?}", g), format!("{:?}", want)),
                Err(p) => rep.violation("C09/panic", case(key, what, json!({"scale": amt::show(x)})), format!("panic: {p}"), format!("{:?}", want)),
            }
        }
    }
    rep.sample(json!({"type": key, "expected order": (0..b.n()).map(|i| format!("{}={}", b.vname(i), amt::show(scales[i]))).collect::<Vec<_>>()}));
}
