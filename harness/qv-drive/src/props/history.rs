//! Histories of depth 2 over one alphabet of calls that spans ALL operation kinds and ALL types.
//!
//! Every other block of the explorer evaluates an operation on its own inputs and judges the result
//! against the model; that covers every history only if the operations are functions of their
//! arguments.  This module explores the assumption itself: for every ordered pair (c1, c2) of the call
//! alphabet it runs c1, then c2, in one thread, and requires c2 to observe exactly what it observed
//! when the alphabet was built (and, where the caller supplies one, the model's expected value).  A
//! result that depends on the preceding call - a memo that is not keyed by type, a static shared by
//! two tables, a thread-local left behind - is reported for the property of the SECOND call.
use crate::amt::{self, A};
use crate::core::*;
use crate::gen::syn::{syna::SynA, synnoref::SynNoRef, synref::SynRef};
use quantities::duration::Duration;
use quantities::length::Length;
use quantities::mass::Mass;
use quantities::temperature::{Temperature, TEMPERATURE_CONVERTER};
use quantities::{ConversionTable, Converter, HasRefUnit, LinearScaledUnit, Quantity, Rate, SIPrefix, Unit};
use serde_json::json;
use std::fmt::Display;
use std::ops::{Add, Div, Mul, Sub};
use std::sync::Arc;

pub struct Call {
    /// properties whose statement covers this call (it is a victim in their checks)
    pub props: &'static [&'static str],
    pub label: String,
    pub run: Box<dyn Fn() -> String + Send + Sync>,
    /// observation when the alphabet was built
    pub baseline: String,
    /// member of the reduced alphabet of the depth-3 histories (one call per kind and type)
    pub rep: bool,
}

impl Call {
    pub fn rep_if(mut self, yes: bool) -> Call {
        self.rep = yes;
        self
    }
}

pub fn call(props: &'static [&'static str], label: String, f: impl Fn() -> String + Send + Sync + 'static) -> Call {
    let run: Box<dyn Fn() -> String + Send + Sync> = Box::new(move || match guard(&f) {
        Ok(s) => s,
        Err(p) => format!("panic: {p}"),
    });
    let baseline = run();
    Call { props, label, run, baseline, rep: false }
}

/// a text sink that accepts `left` more bytes and then fails
struct Limited {
    left: usize,
    got: String,
}

impl std::fmt::Write for Limited {
    fn write_str(&mut self, s: &str) -> std::fmt::Result {
        for c in s.chars() {
            if c.len_utf8() > self.left {
                return Err(std::fmt::Error);
            }
            self.left -= c.len_utf8();
            self.got.push(c);
        }
        Ok(())
    }
}

fn two() -> A {
    amt::parse("2.5")
}
fn four() -> A {
    amt::parse("4")
}

/// unit pairs of a type with n units: neighbours in iteration order, and to / from unit `r`
fn pairs(n: usize, r: usize) -> Vec<(usize, usize)> {
    let mut v = Vec::new();
    for i in 0..n {
        for j in [(i + 1) % n, r] {
            if !v.contains(&(i, j)) {
                v.push((i, j));
            }
            if !v.contains(&(j, i)) {
                v.push((j, i));
            }
        }
    }
    v
}

fn any_type<Q>(key: &str, calls: &mut Vec<Call>)
where
    Q: Quantity + QB + Display + Mul<A, Output = Q> + Div<A, Output = Q>,
    A: Mul<Q, Output = Q>,
    Q::UnitType: UB + Display,
{
    let Ok(b) = bind::<Q>(key) else { return };
    for i in 0..b.n() {
        let u = b.units[i];
        let v = b.vname(i);
        let r0 = i == 0;
        calls.push(call(&["C07", "C11"], format!("{key}::{v} name/symbol/si_prefix"), move || format!("{}|{}|{:?}", u.name(), u.symbol(), u.si_prefix())));
        let sym = b.um(i).sym.clone();
        let s2 = sym.clone();
        calls.push(call(&["C09", "C15"], format!("{key}::unit_from_symbol({sym:?})"), move || format!("{:?}", Q::unit_from_symbol(&sym))).rep_if(r0));
        calls.push(call(&["C09", "C15"], format!("{key} Unit::from_symbol({s2:?})"), move || format!("{:?}", <Q::UnitType as Unit>::from_symbol(&s2))));
        calls.push(call(&["C15"], format!("format!(\"{{}}\", 2.5 {key}::{v})"), move || format!("{}", Q::new(two(), u))).rep_if(r0));
        calls.push(call(&["C15"], format!("format!(\"{{:*>+14.3}}\", 2.5 {key}::{v})"), move || format!("{:*>+14.3}", Q::new(two(), u))));
        calls.push(call(&["C15"], format!("format!(\"{{:^7}}\", {key}::{v})"), move || format!("{:^7}", u)));
        if i < 2 {
            // Display into a sink that fails part-way: an early return must leave nothing behind for the next call
            for cap in [0usize, 3] {
                calls.push(call(&["C15"], format!("write!(sink of {cap} bytes, \"{{:>9}}\", 2.5 {key}::{v})"), move || {
                    use std::fmt::Write;
                    let mut sink = Limited { left: cap, got: String::new() };
                    let r = write!(sink, "{:>9}", Q::new(two(), u));
                    format!("{:?} after {:?}", r.is_ok(), sink.got)
                }).rep_if(r0 && cap == 3));
            }
        }
    }
    let u = b.units[0];
    let v = b.vname(0);
    calls.push(call(&["C08"], format!("2.5 {key}::{v} * 4"), move || {
        let q = Q::new(two(), u) * four();
        format!("{} {:?}", amt::show(q.amount()), q.unit())
    }));
    calls.push(call(&["C08"], format!("4 * 2.5 {key}::{v}"), move || {
        let q = four() * Q::new(two(), u);
        format!("{} {:?}", amt::show(q.amount()), q.unit())
    }));
    calls.push(call(&["C08"], format!("2.5 {key}::{v} / 4"), move || {
        let q = Q::new(two(), u) / four();
        format!("{} {:?}", amt::show(q.amount()), q.unit())
    }));
}

fn ref_type<Q>(key: &str, calls: &mut Vec<Call>)
where
    Q: HasRefUnit + QB + PartialEq + PartialOrd + Add<Q, Output = Q> + Sub<Q, Output = Q> + Div<Q, Output = A>,
    Q::UnitType: LinearScaledUnit + UB,
{
    let Ok(b) = bind::<Q>(key) else { return };
    let r = b.tm.ref_index().unwrap_or(0);
    for i in 0..b.n() {
        let u = b.units[i];
        let v = b.vname(i);
        calls.push(call(&["C07", "C11"], format!("{key}::{v}.scale()"), move || amt::show(u.scale())));
        let sc = u.scale();
        calls.push(call(&["C09"], format!("{key}::unit_from_scale({})", amt::show(sc)), move || format!("{:?}", Q::unit_from_scale(sc))).rep_if(i == r));
        calls.push(call(&["C09"], format!("{key} from_scale({})", amt::show(sc)), move || format!("{:?}", <Q::UnitType as LinearScaledUnit>::from_scale(sc))));
    }
    let all = thorough() && b.n() <= 16;
    let ps: Vec<(usize, usize)> = if all { (0..b.n()).flat_map(|i| (0..b.n()).map(move |j| (i, j))).collect() } else { pairs(b.n(), r) };
    for (k, (i, j)) in ps.into_iter().enumerate() {
        let first = k == 0;
        let (u, w) = (b.units[i], b.units[j]);
        let (vu, vw) = (b.vname(i), b.vname(j));
        calls.push(call(&["C01"], format!("2.5 {key}::{vu} .convert({vw})"), move || {
            let q = Q::new(two(), u).convert(w);
            format!("{} {:?}", amt::show(q.amount()), q.unit())
        }).rep_if(first));
        calls.push(call(&["C02"], format!("2.5 {key}::{vu} ==,partial_cmp 4 {vw}"), move || {
            let (x, y) = (Q::new(two(), u), Q::new(four(), w));
            format!("{} {:?}", x == y, PartialOrd::partial_cmp(&x, &y))
        }));
        calls.push(call(&["C03"], format!("2.5 {key}::{vu} +,-,/ 4 {vw}"), move || {
            let (x, y) = (Q::new(two(), u), Q::new(four(), w));
            let (s, d) = (x + y, x - y);
            format!("{} {:?} | {} {:?} | {}", amt::show(s.amount()), s.unit(), amt::show(d.amount()), d.unit(), amt::show(x / y))
        }));
    }
}

fn noref_type<Q>(key: &str, calls: &mut Vec<Call>)
where
    Q: Quantity + QB + PartialEq + PartialOrd + Add<Q, Output = Q> + Sub<Q, Output = Q> + Div<Q, Output = A>,
    Q::UnitType: UB,
{
    let Ok(b) = bind::<Q>(key) else { return };
    for i in 0..b.n() {
        for j in 0..b.n() {
            let (u, w) = (b.units[i], b.units[j]);
            let (vu, vw) = (b.vname(i), b.vname(j));
            calls.push(call(&["C10"], format!("2.5 {key}::{vu} ==,partial_cmp 2.5 {vw}"), move || {
                let (x, y) = (Q::new(two(), u), Q::new(two(), w));
                format!("{} {:?}", x == y, PartialOrd::partial_cmp(&x, &y))
            }));
            calls.push(call(&["C10"], format!("2.5 {key}::{vu} +,-,/ 4 {vw}"), move || {
                let (x, y) = (Q::new(two(), u), Q::new(four(), w));
                let s = guard(|| x + y).map(|s| format!("{} {:?}", amt::show(s.amount()), s.unit()));
                let d = guard(|| x - y).map(|s| format!("{} {:?}", amt::show(s.amount()), s.unit()));
                let q = guard(|| x / y).map(amt::show);
                format!("{:?} | {:?} | {:?}", s.ok(), d.ok(), q.ok())
            }).rep_if(i == 0 && j == 1));
        }
    }
}

fn mul_op<L, X, Z>(lk: &str, xk: &str, zk: &str, calls: &mut Vec<Call>)
where
    L: HasRefUnit + QB + Mul<X, Output = Z>,
    X: HasRefUnit + QB,
    Z: HasRefUnit + QB,
    L::UnitType: LinearScaledUnit + UB,
    X::UnitType: LinearScaledUnit + UB,
    Z::UnitType: LinearScaledUnit + UB,
    for<'a> &'a L: Mul<&'a X, Output = Z>,
{
    op::<L, X, Z>(lk, xk, zk, "*", |a, b| a * b, |a, b| &a * &b, calls)
}

fn div_op<L, X, Z>(lk: &str, xk: &str, zk: &str, calls: &mut Vec<Call>)
where
    L: HasRefUnit + QB + Div<X, Output = Z>,
    X: HasRefUnit + QB,
    Z: HasRefUnit + QB,
    L::UnitType: LinearScaledUnit + UB,
    X::UnitType: LinearScaledUnit + UB,
    Z::UnitType: LinearScaledUnit + UB,
    for<'a> &'a L: Div<&'a X, Output = Z>,
{
    op::<L, X, Z>(lk, xk, zk, "/", |a, b| a / b, |a, b| &a / &b, calls)
}

fn op<L, X, Z>(lk: &str, xk: &str, zk: &str, sym: &'static str, owned: fn(L, X) -> Z, borrowed: fn(L, X) -> Z, calls: &mut Vec<Call>)
where
    L: HasRefUnit + QB,
    X: HasRefUnit + QB,
    Z: HasRefUnit + QB,
    L::UnitType: LinearScaledUnit + UB,
    X::UnitType: LinearScaledUnit + UB,
    Z::UnitType: LinearScaledUnit + UB,
{
    let (Ok(bl), Ok(bx), Ok(_bz)) = (bind::<L>(lk), bind::<X>(xk), bind::<Z>(zk)) else { return };
    // all operand unit pairs of small instances, a band around the diagonal of large ones
    let small = bl.n() * bx.n() <= 48;
    for i in 0..bl.n() {
        for j in 0..bx.n() {
            if !small && !thorough() && !(j == i % bx.n() || j == (i + 1) % bx.n() || i == 0 || j == 0) {
                continue;
            }
            let (u, w) = (bl.units[i], bx.units[j]);
            let label = format!("2.5 {lk}::{} {sym} 4 {xk}::{}", bl.vname(i), bx.vname(j));
            calls.push(call(&["C04", "C05", "C18"], label, move || {
                let (a, b) = (owned(L::new(two(), u), X::new(four(), w)), borrowed(L::new(two(), u), X::new(four(), w)));
                format!("{} {:?} | {} {:?}", amt::show(a.amount()), a.unit(), amt::show(b.amount()), b.unit())
            }).rep_if(i == 0 && j == 0));
        }
    }
}

fn rate<TQ, PQ>(tk: &str, pk: &str, calls: &mut Vec<Call>)
where
    TQ: Quantity + QB + Div<Rate<TQ, PQ>, Output = PQ>,
    PQ: Quantity + QB + Mul<Rate<TQ, PQ>, Output = TQ>,
    TQ::UnitType: UB,
    PQ::UnitType: UB,
    Rate<TQ, PQ>: Mul<PQ, Output = TQ> + Display,
{
    let (Ok(bt), Ok(bp)) = (bind::<TQ>(tk), bind::<PQ>(pk)) else { return };
    for i in 0..bt.n().min(4) {
        for j in 0..bp.n().min(4) {
            let (ut, up) = (bt.units[i], bp.units[j]);
            let label = format!("Rate(2.5 {tk}::{} per 4 {pk}::{})", bt.vname(i), bp.vname(j));
            calls.push(call(&["C13", "C15", "C18"], label, move || {
                let r = Rate::<TQ, PQ>::new(two(), ut, four(), up);
                let a = r * PQ::new(two(), up);
                let b = PQ::new(two(), up) * r;
                let c = TQ::new(four(), ut) / r;
                let rr = r.reciprocal();
                format!(
                    "{} | {} {:?} | {} {:?} | {} {:?} | {} {:?} {} {:?}",
                    r, amt::show(a.amount()), a.unit(), amt::show(b.amount()), b.unit(), amt::show(c.amount()), c.unit(),
                    amt::show(rr.term_amount()), rr.term_unit(), amt::show(rr.per_unit_multiple()), rr.per_unit()
                )
            }).rep_if(i == 0 && j == 0));
        }
    }
}

fn tables(calls: &mut Vec<Call>) {
    if let Ok(b) = bind::<Temperature>("main.Temperature") {
        for i in 0..b.n() {
            for j in 0..b.n() {
                let (u, w) = (b.units[i], b.units[j]);
                calls.push(call(&["C14"], format!("TEMPERATURE_CONVERTER.convert(2.5 {}, {})", b.vname(i), b.vname(j)), move || {
                    format!("{:?}", TEMPERATURE_CONVERTER.convert(&Temperature::new(two(), u), w).map(|r| (amt::show(r.amount()), r.unit())))
                }).rep_if(i == 0 && j == 1));
            }
        }
    }
    // two user tables of different size over one type, with duplicate rows at different positions
    if let Ok(b) = bind::<SynNoRef>("syn.SynNoRef") {
        if b.n() >= 3 {
            let (u0, u1, u2) = (b.units[0], b.units[1], b.units[2]);
            let m3 = [(u0, u1, amt::parse("2"), amt::parse("0")), (u1, u0, amt::parse("0.5"), amt::parse("0")), (u0, u1, amt::parse("3"), amt::parse("1"))];
            let m4 = [
                (u2, u0, amt::parse("4"), amt::parse("1")),
                (u1, u2, amt::parse("8"), amt::parse("0")),
                (u1, u0, amt::parse("7"), amt::parse("2")),
                (u0, u1, amt::parse("5"), amt::parse("3")),
            ];
            for i in 0..3 {
                for j in 0..3 {
                    let (u, w) = (b.units[i], b.units[j]);
                    calls.push(call(&["C14"], format!("table3.convert(2.5 {}, {})", b.vname(i), b.vname(j)), move || {
                        format!("{:?}", ConversionTable::<SynNoRef, 3> { mappings: m3 }.convert(&SynNoRef::new(two(), u), w).map(|r| (amt::show(r.amount()), r.unit())))
                    }).rep_if(i == 0 && j == 1));
                    calls.push(call(&["C14"], format!("table4.convert(2.5 {}, {})", b.vname(i), b.vname(j)), move || {
                        format!("{:?}", ConversionTable::<SynNoRef, 4> { mappings: m4 }.convert(&SynNoRef::new(two(), u), w).map(|r| (amt::show(r.amount()), r.unit())))
                    }).rep_if(i == 0 && j == 1));
                }
            }
        }
    }
}

fn prefixes(calls: &mut Vec<Call>) {
    for p in SIPrefix::iter().copied() {
        let (abbr, exp) = (p.abbr(), p.exp());
        calls.push(call(&["C16"], format!("SIPrefix::from_abbr({abbr:?})"), move || format!("{:?}", SIPrefix::from_abbr(abbr))).rep_if(matches!(exp, 3 | 0 | -6)));
        calls.push(call(&["C16"], format!("SIPrefix::from_exp({exp})"), move || format!("{:?}", SIPrefix::from_exp(exp))));
        calls.push(call(&["C16"], format!("{p:?} name/abbr/exp/factor"), move || format!("{}|{}|{}", p.name(), p.abbr(), p.exp())));
    }
}

pub fn alphabet() -> Vec<Call> {
    let mut calls: Vec<Call> = Vec::new();
    crate::for_each_type!(any_type, &mut calls);
    crate::for_each_ref_type!(ref_type, &mut calls);
    crate::for_each_noref_type!(noref_type, &mut calls);
    crate::for_each_operator!(mul_op, div_op, &mut calls);
    rate::<Length, Duration>("main.Length", "main.Duration", &mut calls);
    rate::<Mass, SynRef>("main.Mass", "syn.SynRef", &mut calls);
    rate::<SynRef, SynA>("syn.SynRef", "syn.SynA", &mut calls);
    rate::<SynA, Length>("syn.SynA", "main.Length", &mut calls);
    tables(&mut calls);
    prefixes(&mut calls);
    super::c17::history_calls(&mut calls);
    calls
}

/// Blocks exploring every history (c1, c2) with c2 a call covered by `prop` and c1 ANY call of the alphabet.
pub fn collect_for(prop: &'static str, blocks: &mut Vec<Block>, setup: &mut Report) {
    let calls = Arc::new(alphabet());
    let victims: Arc<Vec<usize>> = Arc::new((0..calls.len()).filter(|&i| calls[i].props.contains(&prop)).collect());
    setup.count("history_alphabet", calls.len() as u64);
    setup.count("history_victims", victims.len() as u64);
    let n = calls.len();
    let chunk = 64usize;
    let mut from = 0;
    while from < n {
        let (lo, hi) = (from, (from + chunk).min(n));
        let (cs, vs) = (calls.clone(), victims.clone());
        blocks.push(Block::new(format!("{prop}/history/{lo}-{hi}"), move |rep| block(prop, &cs, &vs, lo, hi, rep)));
        from = hi;
    }
    // depth 3 over the reduced alphabet
    let reps: Arc<Vec<usize>> = Arc::new((0..calls.len()).filter(|&i| calls[i].rep).collect());
    // quick: the property's calls of the reduced alphabet; thorough: about 400 of the property's calls, evenly spaced
    let victims3: Arc<Vec<usize>> = Arc::new(if thorough() {
        let step = (victims.len() + 399) / 400;
        victims.iter().copied().step_by(step.max(1)).collect()
    } else {
        victims.iter().copied().filter(|&i| calls[i].rep).collect()
    });
    setup.count("history_reduced_alphabet", reps.len() as u64);
    setup.count("history_victims_depth3", victims3.len() as u64);
    let (mut from, chunk3) = (0usize, 8usize);
    while from < reps.len() {
        let (lo, hi) = (from, (from + chunk3).min(reps.len()));
        let (cs, rs, vs) = (calls.clone(), reps.clone(), victims3.clone());
        blocks.push(Block::new(format!("{prop}/history3/{lo}-{hi}"), move |rep| block3(prop, &cs, &rs, &vs, lo, hi, rep)));
        from = hi;
    }
}

/// histories of depth 3 over the reduced alphabet (one call per kind and type): c0; c1; c2 with c0, c1 ANY
/// representative call and c2 a representative call covered by `prop` (thorough: any call covered by `prop`)
fn block3(prop: &str, calls: &[Call], reps: &[usize], victims: &[usize], lo: usize, hi: usize, rep: &mut Report) {
    let class = format!("{prop}/history/result-depends-on-two-preceding-calls");
    for &i0 in &reps[lo..hi] {
        rep.inc("states");
        for &i1 in reps {
            for &k in victims {
                let c2 = &calls[k];
                rep.inc("transitions");
                rep.inc("histories_depth3");
                let _ = (calls[i0].run)();
                let _ = (calls[i1].run)();
                let third = (c2.run)();
                if third != c2.baseline {
                    rep.violation(&class, case("history", "c0; c1; c2", json!({"first": calls[i0].label, "second": calls[i1].label, "then": c2.label})), third, c2.baseline.clone());
                } else {
                    rep.inc("sensitive");
                }
            }
        }
    }
}

fn block(prop: &str, calls: &[Call], victims: &[usize], lo: usize, hi: usize, rep: &mut Report) {
    let class = format!("{prop}/history/result-depends-on-preceding-call");
    for c1 in &calls[lo..hi] {
        rep.inc("states");
        for &k in victims {
            let c2 = &calls[k];
            rep.inc("transitions");
            rep.inc("histories_depth2");
            let _ = (c1.run)();
            let second = (c2.run)();
            if second != c2.baseline {
                rep.violation(&class, case("history", "c1; c2", json!({"first": c1.label, "then": c2.label})), second, c2.baseline.clone());
            } else {
                rep.inc("sensitive");
            }
        }
    }
}
