//! C05 - derived results use the natural or the best-fitting unit.
use super::common::*;
use super::derived::*;
use crate::amt::{self, A};
use crate::core::*;
use crate::derived_wrappers;
use qv_model::Rat;
use quantities::{HasRefUnit, LinearScaledUnit, Unit};
use serde_json::json;
use std::ops::{Div, Mul};

pub fn collect(blocks: &mut Vec<Block>, setup: &mut Report) {
    crate::for_each_operator!(fm, fd, blocks, setup);
}

derived_wrappers!(fm, fd, "C05", block);

/// index (into `elig`) of the unit the statement prescribes for reference-unit magnitude m:
/// the largest eligible scale not exceeding m, or the smallest eligible scale if there is none
fn pick(m: &Rat, elig: &[(usize, Rat)]) -> usize {
    let mut smallest = 0;
    for (k, (_, s)) in elig.iter().enumerate() {
        if s.lt(&elig[smallest].1) {
            smallest = k;
        }
    }
    let mut best: Option<usize> = None;
    for (k, (_, s)) in elig.iter().enumerate() {
        if s.le(m) && best.map(|b| s.gt(&elig[b].1)).unwrap_or(true) {
            best = Some(k);
        }
    }
    best.unwrap_or(smallest)
}

fn block<L, X, Z>(c: OpCtx<L, X, Z>, iu: usize, rep: &mut Report)
where
    L: HasRefUnit + QB,
    X: HasRefUnit + QB,
    Z: HasRefUnit + QB,
    L::UnitType: LinearScaledUnit + UB,
    X::UnitType: LinearScaledUnit + UB,
    Z::UnitType: LinearScaledUnit + UB,
{
    let small = amt::alphabet_small(tier());
    let (min_l, min_x, min_z) = (min_scale(&c.bl), min_scale(&c.bx), min_scale(&c.bz));
    let ul = c.bl.units[iu];
    let ml = c.bl.um(iu);
    let sl = ul.scale();
    // the result quantity as the implementation reports it
    let zs: Vec<A> = c.bz.units.iter().map(|u| u.scale()).collect();
    let zr: Vec<Rat> = zs.iter().map(|s| rat_of(*s).unwrap()).collect();
    let take_all = <Z as HasRefUnit>::REF_UNIT.si_prefix().is_none();
    let elig: Vec<(usize, Rat)> = (0..c.bz.n()).filter(|&i| take_all || c.bz.units[i].si_prefix().is_some()).map(|i| (i, zr[i].clone())).collect();
    if elig.is_empty() {
        rep.machinery.push(format!("{}: no eligible unit in the result quantity", c.name));
        return;
    }
    let one = amt::parse("1");
    for ix in 0..c.bx.n() {
        let ux = c.bx.units[ix];
        let mx = c.bx.um(ix);
        let sx = ux.scale();
        let Ok(sigma) = c.op.amt(sl, sx) else {
            rep.inc("sigma_not_computable");
            continue;
        };
        let sigma_exact = c.op.rat(&rat_of(sl).unwrap(), &rat_of(sx).unwrap()).unwrap();
        let natural: Option<usize> = (0..c.bz.n()).find(|&i| zs[i] == sigma);
        // operand pairs: the small alphabet squared, plus amounts that put the result magnitude just below,
        // exactly onto and just above every unit scale of the result type (2 neighbours each side), zero,
        // negative, below the smallest and above the largest scale
        let mut pairs: Vec<(A, A)> = Vec::new();
        let xs_nat = if thorough() { amt::alphabet_v(tier()) } else { small.clone() };
        for &x in &xs_nat {
            for &y in &small {
                pairs.push((x, y));
            }
        }
        let ys: Vec<A> = if thorough() { vec![one, amt::parse("2"), amt::parse("0.5"), amt::parse("-4")] } else { vec![one, amt::parse("2")] };
        let mut targets: Vec<Rat> = Vec::new();
        for s in &zr {
            let factors: &[&str] = if thorough() { &["0.5", "0.99", "0.999999", "1", "1.000001", "1.01", "2"] } else { &["0.99", "1", "1.01"] };
            for f in factors {
                targets.push(s.mul(&Rat::parse(f).unwrap()));
            }
        }
        let lo = zr.iter().fold(zr[0].clone(), |m, s| if s.lt(&m) { s.clone() } else { m });
        let hi = zr.iter().fold(zr[0].clone(), |m, s| if s.gt(&m) { s.clone() } else { m });
        targets.push(lo.mul(&Rat::parse("0.001").unwrap()));
        targets.push(hi.mul(&Rat::parse("1000").unwrap()));
        targets.push(hi.neg());
        for t in &targets {
            for &y in &ys {
                let yr = rat_of(y).unwrap();
                // x such that (x op y) * sigma = t
                let xt = match c.op {
                    Op::Mul => t.div(&sigma_exact).div(&yr),
                    Op::Div => t.div(&sigma_exact).mul(&yr),
                };
                if !in_domain(&xt) {
                    continue;
                }
                if let Some(x0) = amt::near(&xt) {
                    for x in amt::neighbourhood(x0, if thorough() { 4 } else { 2 }) {
                        pairs.push((x, y));
                    }
                }
            }
        }
        let mut seen = std::collections::HashSet::new();
        pairs.retain(|(x, y)| seen.insert((amt::key(*x), amt::key(*y))));
        for (x, y) in pairs {
            rep.inc("states");
            rep.inc("transitions");
            let mk_case = || {
                case(&c.name, c.op.sym(), json!({"a": show_q(x, c.bl.vname(iu)), "b": show_q(y, c.bx.vname(ix)), "sigma": amt::show(sigma)}))
            };
            let (xr, yr) = (rat_of(x).unwrap(), rat_of(y).unwrap());
            let dom = derived_domain(c.op, &xr, ml, &min_l, &yr, mx, &min_x, &min_z);
            let got = guard(|| {
                let z = (c.forms[0])(L::new(x, ul), X::new(y, ux));
                (z.unit(), z.amount())
            });
            if let Err(clause) = dom {
                rep.inc(&format!("filtered_{clause}"));
                continue;
            }
            let (zu, za) = match got {
                Ok(v) => v,
                Err(p) => {
                    rep.violation("C05/panic", mk_case(), format!("panic: {p}"), "a value of the result quantity".into());
                    continue;
                }
            };
            let Some(iw) = c.bz.index_of(zu) else {
                rep.violation("C05/result-unit", mk_case(), format!("{:?}", zu), "a unit of the result quantity".into());
                continue;
            };
            // reference-unit operands give the reference unit itself
            if ul.is_ref_unit() && ux.is_ref_unit() {
                rep.inc("ref_operand_cases");
                if zu != <Z as HasRefUnit>::REF_UNIT {
                    rep.violation("C05/reference-units", mk_case(), format!("{:?}", zu), format!("{:?}", <Z as HasRefUnit>::REF_UNIT));
                }
            }
            let Ok(xy) = c.op.amt(x, y) else {
                rep.inc("amount_op_panics");
                continue;
            };
            if let Some(inat) = natural {
                // natural unit: a unit with scale sigma, amount exactly x op y
                rep.inc("natural_cases");
                rep.inc("sensitive");
                if !(zs[iw] == zs[inat]) || !amt::same(za, xy) {
                    rep.violation(
                        "C05/natural-unit",
                        mk_case(),
                        format!("{} {}", amt::show(za), c.bz.vname(iw)),
                        format!("{} in a unit of scale {} (e.g. {})", amt::show(xy), amt::show(sigma), c.bz.vname(inat)),
                    );
                }
                continue;
            }
            // best-fitting unit
            let Ok(m_comp) = guard(|| xy * sigma) else {
                rep.inc("amount_op_panics");
                continue;
            };
            let Some(m_comp_r) = rat_of(m_comp) else {
                rep.inc("non_finite_magnitude");
                continue;
            };
            let m_exact = c.op.rat(&xr, &yr).unwrap().mul(&sigma_exact);
            let (we, wc) = (pick(&m_exact, &elig), pick(&m_comp_r, &elig));
            // a second, equally faithful evaluation order: the two reference-unit magnitudes first
            let wb = guard(|| match c.op {
                Op::Mul => (x * sl) * (y * sx),
                Op::Div => (x * sl) / (y * sx),
            })
            .ok()
            .and_then(rat_of)
            .map(|m| pick(&m, &elig));
            rep.inc("fit_cases");
            rep.inc("sensitive");
            // binary back-end: the fitted amount stands for the same magnitude (gross check, 1e-6 relative: the exact bound
            // is C04's, also for Decimal, where intermediate roundings are amplified by the scale product; a result that
            // took the natural-unit branch by mistake misses the scale factor altogether)
            if BE == qv_model::Backend::F64 {
                if let Some(zar) = rat_of(za) {
                    let got_m = zar.mul(&zr[iw]);
                    let tol = m_exact.abs().mul(&Rat::parse("1e-6").unwrap());
                    if got_m.sub(&m_exact).abs().gt(&tol) && in_domain(&m_exact) {
                        rep.violation("C05/fitted-amount", mk_case(), format!("{} {} = magnitude {}", amt::show(za), c.bz.vname(iw), got_m.show()), format!("magnitude {}", m_exact.show()));
                    }
                }
            }
            if we != wc {
                rep.inc("rounding_straddles_boundary");
            }
            if elig.iter().any(|(_, s)| s.eq(&m_exact) && s.eq(&m_comp_r)) {
                rep.inc("exactly_on_boundary");
            }
            // a different (equally faithful) evaluation order may land on the other side of a boundary that the exact
            // magnitude misses by less than 1e-13 relative; exactly-on-boundary magnitudes stay strict
            let nudge = Rat::parse("1e-13").unwrap();
            let (m_lo, m_hi) = (m_exact.sub(&m_exact.abs().mul(&nudge)), m_exact.add(&m_exact.abs().mul(&nudge)));
            let on_boundary = elig.iter().any(|(_, s)| s.eq(&m_exact));
            let (wl, wh) = (pick(&m_lo, &elig), pick(&m_hi, &elig));
            let ok = zr[iw].eq(&elig[we].1)
                || zr[iw].eq(&elig[wc].1)
                || wb.map(|w| zr[iw].eq(&elig[w].1)).unwrap_or(false)
                || (!on_boundary && (zr[iw].eq(&elig[wl].1) || zr[iw].eq(&elig[wh].1)));
            if !ok {
                rep.violation(
                    "C05/best-fitting-unit",
                    mk_case(),
                    format!("{} {} (scale {})", amt::show(za), c.bz.vname(iw), zr[iw].show()),
                    format!(
                        "unit of scale {} for magnitude {} (eligible: {})",
                        elig[we].1.show(),
                        m_exact.show(),
                        elig.iter().map(|(i, _)| c.bz.vname(*i)).collect::<Vec<_>>().join(",")
                    ),
                );
            } else if rep.get("fit_cases") % 211 == 1 {
                rep.sample(json!({"op": c.name, "a": show_q(x, c.bl.vname(iu)), "b": show_q(y, c.bx.vname(ix)),
                    "magnitude": m_exact.show(), "result": format!("{} {}", amt::show(za), c.bz.vname(iw))}));
            }
        }
    }
}
