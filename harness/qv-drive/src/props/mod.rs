//! One module per property; `collect` turns a property id into work blocks.
pub mod common;
pub mod c01;
pub mod c02;

use crate::core::{Block, Report};

pub fn collect(prop: &str, blocks: &mut Vec<Block>, setup: &mut Report) {
    match prop {
        "C01" => c01::collect(blocks, setup),
        "C02" => c02::collect(blocks, setup),
        "list" => {}
        _ => setup.machinery.push(format!("unknown property {prop}")),
    }
}
