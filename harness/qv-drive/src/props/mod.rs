//! One module per property; `collect` turns a property id into work blocks.
pub mod common;
pub mod derived;
pub mod c01;
pub mod c02;
pub mod c03;
pub mod c04;
pub mod c05;
pub mod c07;
pub mod c08;
pub mod c09;
pub mod c10;
pub mod c13;
pub mod c14;
pub mod c15;
pub mod c15_rates;
pub mod c16;
pub mod c18;
pub mod fmtgrid;
pub mod history;
pub mod selftest;
pub mod c17;

use crate::core::{Block, Report};

pub fn collect(prop: &str, blocks: &mut Vec<Block>, setup: &mut Report) {
    match prop {
        "C01" => c01::collect(blocks, setup),
        "C02" => c02::collect(blocks, setup),
        "C03" => c03::collect(blocks, setup),
        "C04" => c04::collect(blocks, setup),
        "C05" => c05::collect(blocks, setup),
        "C07" => c07::collect(blocks, setup),
        "C08" => c08::collect(blocks, setup),
        "C09" => c09::collect(blocks, setup),
        "C10" => c10::collect(blocks, setup),
        "C13" => c13::collect(blocks, setup),
        "C14" => c14::collect(blocks, setup),
        "C15" => c15::collect(blocks, setup),
        "C16" => c16::collect(blocks, setup),
        "C17" => c17::collect(blocks, setup),
        "C18" => c18::collect(blocks, setup),
        "selftest" => selftest::collect(blocks, setup),
        "list" => {}
        _ => setup.machinery.push(format!("unknown property {prop}")),
    }
    // histories of depth 2 (props/history.rs); C17 adds its own from its collect(); C18's victims are the derived and
    // rate operations (a panic of the other operations after some history shows in C01-C03 / C15 as a changed observation)
    const WITH_HISTORY: [&str; 14] = ["C01", "C02", "C03", "C04", "C05", "C07", "C08", "C09", "C10", "C13", "C14", "C15", "C16", "C18"];
    if let Some(p) = WITH_HISTORY.iter().find(|p| **p == prop) {
        history::collect_for(p, blocks, setup);
    }
}
