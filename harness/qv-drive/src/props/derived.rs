//! Shared machinery for the derived operators (C04, C05, C18): every operator instance
//! `L op X -> Z` the model derives from the declared derivations, in its four ownership forms,
//! together with its inverse `Z op' X -> L`.
use super::common::*;
use crate::amt::{self, A};
use crate::core::*;
use qv_model::calc::ErrVal;
use qv_model::{Backend, Rat, UnitModel};
use quantities::{HasRefUnit, LinearScaledUnit};
use std::ops::{Div, Mul};

#[derive(Clone, Copy, PartialEq, Eq, Debug)]
pub enum Op {
    Mul,
    Div,
}

impl Op {
    pub fn sym(self) -> &'static str {
        match self {
            Op::Mul => "*",
            Op::Div => "/",
        }
    }
    pub fn rat(self, a: &Rat, b: &Rat) -> Option<Rat> {
        match self {
            Op::Mul => Some(a.mul(b)),
            Op::Div => {
                if b.is_zero() {
                    None
                } else {
                    Some(a.div(b))
                }
            }
        }
    }
    pub fn ev(self, a: &ErrVal, b: &ErrVal) -> Option<ErrVal> {
        match self {
            Op::Mul => Some(a.mul(b, BE)),
            Op::Div => a.div(b, BE),
        }
    }
    /// the amount type's own operation, guarded
    pub fn amt(self, a: A, b: A) -> Result<A, String> {
        guard(|| match self {
            Op::Mul => a * b,
            Op::Div => a / b,
        })
    }
}

pub struct OpCtx<L: HasRefUnit, X: HasRefUnit, Z: HasRefUnit>
where
    L::UnitType: LinearScaledUnit,
    X::UnitType: LinearScaledUnit,
    Z::UnitType: LinearScaledUnit,
{
    pub op: Op,
    /// a op b, &a op b, a op &b, &a op &b
    pub forms: [fn(L, X) -> Z; 4],
    /// the inverse operator instance: (l op x) op' x -> l
    pub inv: fn(Z, X) -> L,
    pub bl: Bind<L>,
    pub bx: Bind<X>,
    pub bz: Bind<Z>,
    pub name: String,
}

impl<L: HasRefUnit, X: HasRefUnit, Z: HasRefUnit> Clone for OpCtx<L, X, Z>
where
    L::UnitType: LinearScaledUnit,
    X::UnitType: LinearScaledUnit,
    Z::UnitType: LinearScaledUnit,
{
    fn clone(&self) -> Self {
        OpCtx { op: self.op, forms: self.forms, inv: self.inv, bl: self.bl.clone(), bx: self.bx.clone(), bz: self.bz.clone(), name: self.name.clone() }
    }
}

pub type BlockFn<L, X, Z> = fn(OpCtx<L, X, Z>, usize, &mut Report);

pub fn add_mul<L, X, Z>(lk: &str, xk: &str, zk: &str, prop: &str, f: BlockFn<L, X, Z>, blocks: &mut Vec<Block>, setup: &mut Report)
where
    L: HasRefUnit + QB + Mul<X, Output = Z>,
    X: HasRefUnit + QB,
    Z: HasRefUnit + QB + Div<X, Output = L>,
    L::UnitType: LinearScaledUnit + UB,
    X::UnitType: LinearScaledUnit + UB,
    Z::UnitType: LinearScaledUnit + UB,
    for<'a> L: Mul<&'a X, Output = Z>,
    for<'a> &'a L: Mul<X, Output = Z>,
    for<'a> &'a L: Mul<&'a X, Output = Z>,
{
    let forms: [fn(L, X) -> Z; 4] = [|a, b| a * b, |a, b| &a * b, |a, b| a * &b, |a, b| &a * &b];
    let inv: fn(Z, X) -> L = |z, x| z / x;
    add::<L, X, Z>(Op::Mul, forms, inv, lk, xk, zk, prop, f, blocks, setup);
}

pub fn add_div<L, X, Z>(lk: &str, xk: &str, zk: &str, prop: &str, f: BlockFn<L, X, Z>, blocks: &mut Vec<Block>, setup: &mut Report)
where
    L: HasRefUnit + QB + Div<X, Output = Z>,
    X: HasRefUnit + QB,
    Z: HasRefUnit + QB + Mul<X, Output = L>,
    L::UnitType: LinearScaledUnit + UB,
    X::UnitType: LinearScaledUnit + UB,
    Z::UnitType: LinearScaledUnit + UB,
    for<'a> L: Div<&'a X, Output = Z>,
    for<'a> &'a L: Div<X, Output = Z>,
    for<'a> &'a L: Div<&'a X, Output = Z>,
{
    let forms: [fn(L, X) -> Z; 4] = [|a, b| a / b, |a, b| &a / b, |a, b| a / &b, |a, b| &a / &b];
    let inv: fn(Z, X) -> L = |z, x| z * x;
    add::<L, X, Z>(Op::Div, forms, inv, lk, xk, zk, prop, f, blocks, setup);
}

fn add<L, X, Z>(
    op: Op,
    forms: [fn(L, X) -> Z; 4],
    inv: fn(Z, X) -> L,
    lk: &str,
    xk: &str,
    zk: &str,
    prop: &str,
    f: BlockFn<L, X, Z>,
    blocks: &mut Vec<Block>,
    setup: &mut Report,
) where
    L: HasRefUnit + QB,
    X: HasRefUnit + QB,
    Z: HasRefUnit + QB,
    L::UnitType: LinearScaledUnit + UB,
    X::UnitType: LinearScaledUnit + UB,
    Z::UnitType: LinearScaledUnit + UB,
{
    let (Some(bl), Some(bx), Some(bz)) = (bind_or_fail::<L>(lk, setup), bind_or_fail::<X>(xk, setup), bind_or_fail::<Z>(zk, setup)) else {
        return;
    };
    setup.inc("operator_instances");
    let name = format!("{} {} {} -> {}", lk, op.sym(), xk, zk);
    setup.note(format!("operator instance: {name}"));
    let ctx = OpCtx { op, forms, inv, bl, bx, bz, name: name.clone() };
    for iu in 0..ctx.bl.n() {
        let c = ctx.clone();
        setup.count("operand_unit_pairs", c.bx.n() as u64);
        blocks.push(Block::new(format!("{}/{}/{}", prop, name, ctx.bl.vname(iu)), move |rep| f(c, iu, rep)));
    }
}

/// Specification of the result amount of `x[ux] op y[uy]` expressed in unit `w` of the result type,
/// following the evaluation the statement of C05 describes (appendix A):
/// rd(rd(rd(x op y) x sigma) / S_w), sigma = rd(S_ux op S_uy).  Inputs may carry error bounds.
pub fn derived_spec(op: Op, x: &ErrVal, ux: &UnitModel, y: &ErrVal, uy: &UnitModel, w: &UnitModel) -> Option<ErrVal> {
    let xy = op.ev(x, y)?;
    let sigma = op.ev(&ErrVal::scale(ux, BE), &ErrVal::scale(uy, BE))?;
    let m = xy.mul(&sigma, BE);
    let r1 = m.div(&ErrVal::scale(w, BE), BE)?;
    // alternative order: convert the operands to reference units first
    let mx = x.mul(&ErrVal::scale(ux, BE), BE);
    let my = y.mul(&ErrVal::scale(uy, BE), BE);
    let r2 = op.ev(&mx, &my)?.div(&ErrVal::scale(w, BE), BE)?;
    Some(r1.widen(&r2))
}

/// Magnitude precondition of C18 for one derived operation (DESIGN.md 5.18): operands, their
/// reference-unit magnitudes, the exact result magnitude, the product / ratio of the two unit scales,
/// the own-unit product / quotient of the amounts, and operands / result expressed in the smallest unit
/// of their quantity must all be inside the back-end's value domain.  Returns the name of the first
/// violated clause.
pub fn derived_domain(op: Op, x: &Rat, ux: &UnitModel, min_l: &Rat, y: &Rat, uy: &UnitModel, min_x: &Rat, min_z: &Rat) -> Result<Rat, &'static str> {
    let (sx, sy) = (ux.scale.as_ref().unwrap(), uy.scale.as_ref().unwrap());
    if op == Op::Div && y.is_zero() {
        return Err("zero_divisor");
    }
    if !in_domain(x) || !in_domain(y) {
        return Err("operand_amount");
    }
    let (mx, my) = (x.mul(sx), y.mul(sy));
    if !in_domain(&mx) || !in_domain(&my) {
        return Err("operand_magnitude");
    }
    let m = op.rat(&mx, &my).unwrap();
    if !in_domain(&m) {
        return Err("result_magnitude");
    }
    if BE == Backend::Dec {
        if !in_domain(&op.rat(sx, sy).unwrap()) {
            return Err("scale_product_or_ratio");
        }
        if !in_domain(&op.rat(x, y).unwrap()) {
            return Err("natural_unit_intermediate");
        }
        if !in_domain(&mx.div(min_l)) || !in_domain(&my.div(min_x)) {
            return Err("operand_in_smallest_unit");
        }
        if !in_domain(&m.div(min_z)) {
            return Err("result_in_smallest_unit");
        }
    }
    Ok(m)
}

pub fn min_scale<Q: HasRefUnit>(b: &Bind<Q>) -> Rat
where
    Q::UnitType: LinearScaledUnit + UB,
{
    let mut m = b.um(0).scale.clone().unwrap();
    for i in 1..b.n() {
        let s = b.um(i).scale.as_ref().unwrap();
        if s.lt(&m) {
            m = s.clone();
        }
    }
    m
}
