//! C01 - unit conversion preserves the physical value.
use super::common::*;
use crate::amt::{self, A};
use crate::core::*;
use qv_model::calc::convert_spec_ev;
use quantities::{HasRefUnit, LinearScaledUnit};
use serde_json::json;
use std::collections::HashSet;

pub fn collect(blocks: &mut Vec<Block>, setup: &mut Report) {
    crate::for_each_ref_type!(add_type, blocks, setup);
}

fn add_type<Q>(key: &str, blocks: &mut Vec<Block>, setup: &mut Report)
where
    Q: HasRefUnit + QB,
    Q::UnitType: LinearScaledUnit + UB,
{
    let Some(b) = bind_or_fail::<Q>(key, setup) else { return };
    setup.inc("types");
    setup.count("units", b.n() as u64);
    for iu in 0..b.n() {
        let bb = b.clone();
        blocks.push(Block::new(format!("C01/{}/{}", key, b.vname(iu)), move |rep| block::<Q>(bb, iu, rep)));
    }
}

fn seeds<Q>(b: &Bind<Q>, iu: usize, t: crate::Tier) -> Vec<A>
where
    Q: HasRefUnit + QB,
    Q::UnitType: LinearScaledUnit + UB,
{
    let mut s = amt::alphabet_v(t);
    // boundary alphabet: amounts that denote in `iu` the same magnitude as 1 and 17.4 of every other unit
    for j in 0..b.n() {
        if j != iu {
            for a in [amt::parse("1"), amt::parse("17.4")] {
                s.extend(same_magnitude_partners(a, b.um(iu), b.um(j), 1));
            }
        }
    }
    amt::dedup(s)
}

fn block<Q>(b: Bind<Q>, iu: usize, rep: &mut Report)
where
    Q: HasRefUnit + QB,
    Q::UnitType: LinearScaledUnit + UB,
{
    let key = b.tm.key.as_str();
    let depth = if thorough() { 3 } else { 2 };
    let n = b.n();
    let mut visited: HashSet<(usize, (i128, i32))> = HashSet::new();
    let mut frontier: Vec<(usize, A)> = Vec::new();
    // the quick alphabet is closed to the full depth; the additional values of the thorough alphabet are closed to
    // depth 2 (a depth-3 closure from ~300 seeds per unit would be ~1e9 transitions)
    let mut shallow: Vec<(usize, A)> = Vec::new();
    for a in seeds(&b, iu, crate::Tier::Quick) {
        if visited.insert((iu, amt::key(a))) {
            frontier.push((iu, a));
        }
    }
    if thorough() {
        for a in seeds(&b, iu, crate::Tier::Thorough) {
            if visited.insert((iu, amt::key(a))) {
                shallow.push((iu, a));
            }
        }
    }
    // special values take part in the exact clauses only (identity, unit, equiv == convert)
    let specials = amt::alphabet_s();
    for a in &specials {
        if visited.insert((iu, amt::key(*a))) {
            frontier.push((iu, *a));
        }
    }
    let mut seeds0 = frontier.clone();
    seeds0.extend(shallow.iter().copied());
    // shallow seeds: levels 0 and 1 only
    let mut sfrontier = shallow;
    for level in 0..2 {
        let mut next: Vec<(usize, A)> = Vec::new();
        for &(i, a) in &sfrontier {
            rep.inc("states");
            for j in 0..n {
                if let Some(ra) = transition::<Q>(&b, i, j, a, level, rep) {
                    if level == 0 && amt::is_finite(ra) && visited.insert((j, amt::key(ra))) {
                        next.push((j, ra));
                    }
                }
            }
        }
        sfrontier = next;
    }
    // quick tier, types with more than 24 units: second steps go to a fixed subset of the units (the start unit, the
    // reference unit, the neighbour, the smallest and the largest) instead of all of them - n^3 would dominate the run
    let wide = thorough() || n <= 24;
    let r0 = b.tm.ref_index().unwrap_or(0);
    let narrow = move |from: usize, j: usize| -> bool { wide || j == iu || j == r0 || j == (from + 1) % n || j == 0 || j == n - 1 };
    for level in 0..depth {
        let mut next: Vec<(usize, A)> = Vec::new();
        for &(i, a) in &frontier {
            rep.inc("states");
            for j in 0..n {
                if level > 0 && !narrow(i, j) {
                    continue;
                }
                if let Some(ra) = transition::<Q>(&b, i, j, a, level, rep) {
                    if level + 1 < depth && amt::is_finite(ra) && visited.insert((j, amt::key(ra))) {
                        next.push((j, ra));
                    }
                }
            }
        }
        frontier = next;
    }
    // path oracles on every depth-2 path from every seed (no de-duplication): u -> v -> u is the
    // identity and u -> v -> w agrees with u -> w, within the composed bound
    for &(i, a) in &seeds0 {
        let Some(ar) = rat_of(a) else { continue };
        for j in 0..n {
            if j == i {
                continue;
            }
            let Ok(q1) = guard(|| Q::new(a, b.units[i]).convert(b.units[j])) else { continue };
            let Some(spec1) = conv_spec_in_domain(&ar, b.um(i), b.um(j)) else { continue };
            for w in 0..n {
                if w == j || !narrow(j, w) {
                    continue;
                }
                let Ok(q2) = guard(|| q1.convert(b.units[w])) else { continue };
                rep.inc("paths_depth2");
                let Some(spec2) = convert_spec_ev(&spec1, b.um(j), b.um(w), BE) else { continue };
                if !in_domain(&spec2.v) {
                    continue;
                }
                let Some(obs) = rat_of(q2.amount()) else { continue };
                if !spec2.within(&obs) {
                    let class = if w == i { "C01/round-trip" } else { "C01/chained-vs-direct" };
                    rep.violation(
                        class,
                        case(key, "convert;convert", json!({"amount": amt::show(a), "path": [b.vname(i), b.vname(j), b.vname(w)]})),
                        amt::show(q2.amount()),
                        format!("{} +- {:e}", spec2.v.show(), spec2.tol()),
                    );
                }
                if w == i {
                    rep.inc("round_trips");
                }
            }
        }
    }
}

/// one conversion, judged; returns the resulting amount (for the closure)
fn transition<Q>(b: &Bind<Q>, i: usize, j: usize, a: A, level: usize, rep: &mut Report) -> Option<A>
where
    Q: HasRefUnit + QB,
    Q::UnitType: LinearScaledUnit + UB,
{
    let key = b.tm.key.as_str();
    rep.inc("transitions");
    let (ui, uj) = (b.units[i], b.units[j]);
    let ar = rat_of(a);
    let spec = ar.as_ref().and_then(|r| conv_spec_in_domain(r, b.um(i), b.um(j)));
    let mk_case = || case(key, "convert", json!({"amount": amt::show(a), "from": b.vname(i), "to": b.vname(j)}));
    let r = guard(|| {
        let q = Q::new(a, ui);
        let c = q.convert(uj);
        (c.unit(), c.amount(), q.equiv_amount(uj))
    });
    let (ru, ra, ea) = match r {
        Ok(x) => x,
        Err(p) => {
            if spec.is_some() || amt::BACKEND_NAME == "f64" {
                rep.violation("C01/panic", mk_case(), format!("panic: {p}"), "a converted value".into());
            } else {
                rep.inc("out_of_domain_panics");
            }
            return None;
        }
    };
    if ru != uj {
        rep.violation("C01/unit", mk_case(), format!("{:?}", ru), format!("{:?}", uj));
    }
    if !amt::same(ra, ea) {
        rep.violation("C01/equiv-amount-differs-from-convert", mk_case(), amt::show(ea), amt::show(ra));
    }
    if i == j {
        rep.inc("identity_cases");
        if !amt::same(ra, a) {
            rep.violation("C01/identity", mk_case(), amt::show(ra), amt::show(a));
        }
        return Some(ra);
    }
    match (&spec, rat_of(ra)) {
        (Some(spec), Some(obs)) => {
            rep.inc("value_checked");
            if !spec.within(&obs) {
                rep.violation(
                    "C01/magnitude",
                    mk_case(),
                    amt::show(ra),
                    format!("{} +- {:e}", spec.v.show(), spec.tol()),
                );
            } else if level == 0 && scales_differ(b.um(i), b.um(j)) && !spec.v.is_zero() && spec.rel_tol() <= SENSITIVE_REL {
                rep.inc("sensitive");
                if i + 1 == j {
                    rep.sample(json!({"type": key, "from": b.vname(i), "to": b.vname(j), "amount": amt::show(a),
                        "observed": amt::show(ra), "exact": spec.v.show(), "tolerance": spec.tol()}));
                }
            }
        }
        (Some(spec), None) => {
            rep.violation("C01/magnitude", mk_case(), amt::show(ra), format!("{} +- {:e}", spec.v.show(), spec.tol()));
        }
        _ => rep.inc("out_of_domain"),
    }
    Some(ra)
}
