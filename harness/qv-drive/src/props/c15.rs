//! C15 - text output is faithful and parseable.
use super::common::*;
use super::fmtgrid::{self, Flags, Spec, FLAGS};
use crate::amt::{self, A};
use crate::core::*;
use qv_model::{BigInt, Rat};
use quantities::{Quantity, Rate, Unit};
use serde_json::json;
use std::collections::HashMap;
use std::fmt::Display;

pub fn collect(blocks: &mut Vec<Block>, setup: &mut Report) {
    crate::for_each_type!(add_type, blocks, setup);
    super::c15_rates::collect(blocks, setup);
}

fn add_type<Q>(key: &str, blocks: &mut Vec<Block>, setup: &mut Report)
where
    Q: Quantity + QB + Display,
    Q::UnitType: UB,
{
    let Some(b) = bind_or_fail::<Q>(key, setup) else { return };
    setup.inc("types");
    // quick: the smallest, the reference / middle and the largest unit plus every unit with a non-ASCII symbol;
    // thorough: every unit
    let n = b.n();
    let mut pick: Vec<usize> = if thorough() { (0..n).collect() } else { vec![0, n / 2, n - 1] };
    if let Some(r) = b.tm.ref_index() {
        pick.push(r);
    }
    for i in 0..n {
        if !b.um(i).sym.is_ascii() && (thorough() || pick.len() < 6) {
            pick.push(i);
        }
        // units with an empty symbol (displayed like unit-less values) or with quotes / backslashes in it
        if b.um(i).sym.is_empty() || b.um(i).sym.contains('"') || b.um(i).sym.contains('\\') {
            pick.push(i);
        }
    }
    pick.sort();
    pick.dedup();
    for iu in pick {
        let bb = b.clone();
        setup.inc("units");
        blocks.push(Block::new(format!("C15/{}/{}", key, b.vname(iu)), move |rep| block::<Q>(bb, iu, rep)));
    }
}

pub fn amounts() -> Vec<A> {
    let mut v: Vec<A> = Vec::new();
    for s in ["0", "0.001", "0.5", "1.5", "2.5", "17.4", "184.09", "0.05", "999.95", "0.045", "1e15", "1e-7", "123456.789", "1", "0.125", "9.995"] {
        v.push(amt::parse(s));
        v.push(amt::neg(amt::parse(s)));
    }
    v.extend(amt::alphabet_s().into_iter().filter(|x| amt::is_finite(*x) && amt::is_zero(*x)));
    #[cfg(not(feature = "dec"))]
    {
        v.push(0.1 + 0.2);
        v.push(-(0.1 + 0.2));
        v.push(1e21);
        v.push(2.5e-5);
        if thorough() {
            v.push(1e300);
            v.push(-5e-324);
            v.push(f64::MAX);
            v.push(4.35);
            v.push(0.3);
        }
    }
    #[cfg(feature = "dec")]
    {
        for s in ["0.333333333333333333", "1.50", "-0.999999999999999999", "99999999999999999", "0.000000000000000005", "2.500000000000000000"] {
            v.push(amt::parse(s));
        }
    }
    amt::dedup(v)
}

pub fn is_negative(a: A) -> bool {
    #[cfg(not(feature = "dec"))]
    {
        a.is_sign_negative()
    }
    #[cfg(feature = "dec")]
    {
        a.coefficient() < 0
    }
}

fn numeric(t: &str) -> bool {
    let mut parts = t.split('.');
    let ip = parts.next().unwrap_or("");
    let fp = parts.next();
    if parts.next().is_some() || ip.is_empty() || !ip.bytes().all(|b| b.is_ascii_digit()) {
        return false;
    }
    match fp {
        None => true,
        Some(f) => !f.is_empty() && f.bytes().all(|b| b.is_ascii_digit()),
    }
}

/// Is `t` a faithful rendering of the non-negative amount `abs`?  Err((class, explanation)).
pub fn amount_text_ok(t: &str, abs: A, prec: Option<usize>) -> Result<(), (&'static str, String)> {
    if !numeric(t) {
        return Err(("C15/amount-text", format!("{t:?} is not a plain decimal number")));
    }
    match prec {
        None => {
            // must parse back to exactly the stored amount
            #[cfg(not(feature = "dec"))]
            let back = t.parse::<f64>().ok();
            #[cfg(feature = "dec")]
            let back = <A as std::str::FromStr>::from_str(t).ok();
            match back {
                Some(b) if amt::same(b, abs) => Ok(()),
                Some(b) => Err(("C15/amount-does-not-parse-back", format!("{t:?} parses to {} instead of {}", amt::show(b), amt::show(abs)))),
                None => Err(("C15/amount-does-not-parse-back", format!("{t:?} does not parse"))),
            }
        }
        Some(p) => {
            let digits = t.split('.').nth(1).map(|f| f.len()).unwrap_or(0);
            let value = Rat::parse(t).unwrap();
            let exact = rat_of(abs).unwrap();
            let half = Rat::new(BigInt::one(), BigInt::pow10(p as u32).mul(&BigInt::from_u64(2)));
            let close_p = value.sub(&exact).abs().le(&half);
            if digits != p {
                // classify the dependency limitation narrowly: Decimal, precision > 18, exactly 18 digits, and
                // those 18 digits are the exact amount (the type holds at most 18)
                if amt::BACKEND_NAME == "dec" && p > 18 && digits == 18 && value.eq(&exact) {
                    return Err(("C15/precision>18/fraction-digits-capped-at-18", format!("{t:?} has 18 fractional digits, {p} requested")));
                }
                return Err(("C15/fraction-digits", format!("{t:?} has {digits} fractional digits, {p} requested")));
            }
            if !close_p {
                return Err(("C15/not-correctly-rounded", format!("{t:?} is not {} rounded to {p} places", exact.show())));
            }
            Ok(())
        }
    }
}

fn pad(body: &str, width: Option<usize>, fill: char, align: char) -> String {
    let len = body.chars().count();
    let w = width.unwrap_or(0);
    if len >= w {
        return body.to_string();
    }
    let diff = w - len;
    let (l, r) = match align {
        '<' => (0, diff),
        '^' => (diff / 2, diff - diff / 2),
        _ => (diff, 0),
    };
    let f = |n: usize| std::iter::repeat(fill).take(n).collect::<String>();
    format!("{}{}{}", f(l), body, f(r))
}

/// all strings the layout rules allow for sign `sg`, amount text `t` and suffix
fn layouts(sg: &str, t: &str, suffix: &str, flags: &Flags, width: Option<usize>) -> Vec<String> {
    let body = format!("{sg}{t}{suffix}");
    if flags.zero {
        // sign, zeros, body (sign-aware zero padding replaces fill and alignment)
        let len = body.chars().count();
        let w = width.unwrap_or(0);
        let zeros = "0".repeat(w.saturating_sub(len));
        return vec![format!("{sg}{zeros}{t}{suffix}")];
    }
    let fill = flags.fill.unwrap_or(' ');
    match flags.align {
        Some(a) => vec![pad(&body, width, fill, a)],
        // the statement does not fix a default alignment: accept right (numeric) and left (textual)
        None => vec![pad(&body, width, fill, '>'), pad(&body, width, fill, '<')],
    }
}

/// Judge one formatted quantity.  `cache` memoises the amount-text verdict per (text, precision).
pub fn judge_value(
    s: &str,
    a: A,
    sym: &str,
    spec: &Spec,
    cache: &mut HashMap<(String, Option<usize>), Result<(), (&'static str, String)>>,
) -> Result<(), (&'static str, String)> {
    let neg = is_negative(a);
    let sg = if neg { "-" } else if spec.flags.plus { "+" } else { "" };
    let suffix = if sym.is_empty() { String::new() } else { format!(" {sym}") };
    let abs = amt::abs(a);
    // candidate amount texts: maximal runs of [0-9.] that end where a suffix occurrence begins; leading zeros may
    // belong to the padding, so every zero-stripped variant is a candidate too
    let chars: Vec<(usize, char)> = s.char_indices().collect();
    let mut ends: Vec<usize> = Vec::new();
    if suffix.is_empty() {
        // unit-less: the run may end anywhere a non-numeric character (padding) or the end follows
        for k in 0..=chars.len() {
            let pos = if k == chars.len() { s.len() } else { chars[k].0 };
            let prev_numeric = k > 0 && (chars[k - 1].1.is_ascii_digit());
            let next_numeric = k < chars.len() && (chars[k].1.is_ascii_digit() || chars[k].1 == '.');
            if prev_numeric && !next_numeric {
                ends.push(pos);
            }
        }
        if let Some(f) = spec.flags.fill {
            if f.is_ascii_digit() {
                for k in 1..chars.len() {
                    if chars[k - 1].1.is_ascii_digit() {
                        ends.push(chars[k].0);
                    }
                }
            }
        }
    } else {
        let mut from = 0;
        while let Some(p) = s[from..].find(&suffix) {
            ends.push(from + p);
            from += p + 1;
            while !s.is_char_boundary(from) {
                from += 1;
            }
        }
    }
    let mut layout_ok = false;
    let mut last_err: Option<(&'static str, String)> = None;
    for end in ends {
        let head = &s[..end];
        let run_start = head.rfind(|c: char| !(c.is_ascii_digit() || c == '.')).map(|i| i + head[i..].chars().next().unwrap().len_utf8()).unwrap_or(0);
        let run = &head[run_start..];
        if run.is_empty() {
            continue;
        }
        let mut t = run;
        loop {
            if layouts(sg, t, &suffix, &spec.flags, spec.width).iter().any(|e| e == s) {
                layout_ok = true;
                let v = cache.entry((t.to_string(), spec.prec)).or_insert_with(|| amount_text_ok(t, abs, spec.prec)).clone();
                match v {
                    Ok(()) => return Ok(()),
                    Err(e) => last_err = Some(e),
                }
            }
            // strip one leading zero that is followed by another digit
            let b = t.as_bytes();
            if b.len() >= 2 && b[0] == b'0' && b[1].is_ascii_digit() {
                t = &t[1..];
            } else {
                break;
            }
        }
    }
    if layout_ok {
        return Err(last_err.unwrap());
    }
    Err(("C15/layout", format!("not of the form [padding][{sg}][zeros][amount]{suffix:?}[padding] for width {:?}, fill {:?}, alignment {:?}, zero flag {}", spec.width, spec.flags.fill, spec.flags.align, spec.flags.zero)))
}

fn block<Q>(b: Bind<Q>, iu: usize, rep: &mut Report)
where
    Q: Quantity + QB + Display,
    Q::UnitType: UB,
{
    let key = b.tm.key.as_str();
    let u = b.units[iu];
    let sym = b.um(iu).sym.clone();
    let widths = fmtgrid::widths(thorough());
    let precs = fmtgrid::precisions(thorough());
    // the symbol the implementation reports must resolve to the stored unit (checked once per unit)
    rep.inc("transitions");
    let reported = u.symbol();
    if Q::unit_from_symbol(&reported) != Some(u) && !(0..b.n()).any(|j| j != iu && b.um(j).sym == sym) {
        rep.violation("C15/symbol-does-not-resolve", case(key, "unit_from_symbol", json!({"unit": b.vname(iu)})), format!("{:?}", Q::unit_from_symbol(&reported)), format!("{:?}", u));
    }
    // the unit itself displays as its symbol under ordinary string formatting rules
    for (fi, flags) in FLAGS.iter().enumerate() {
        for &w in &widths {
            for &p in &precs {
                rep.inc("transitions");
                rep.inc("unit_specs");
                let spec = Spec { flags: *flags, width: w, prec: p };
                let got = guard(|| fmtgrid::apply(fi, w, p, &u));
                let want = fmtgrid::apply(fi, w, p, &sym.as_str());
                match got {
                    Ok(g) if g == want => {}
                    Ok(g) => rep.violation("C15/unit-display", case(key, "format!(unit)", json!({"unit": b.vname(iu), "spec": spec.show()})), format!("{:?}", g), format!("{:?}", want)),
                    Err(e) => rep.violation("C15/panic", case(key, "format!(unit)", json!({"unit": b.vname(iu), "spec": spec.show()})), format!("panic: {e}"), format!("{:?}", want)),
                }
            }
        }
    }
    let mut all_specs: Vec<(usize, Option<usize>, Option<usize>)> = Vec::new();
    for fi in 0..FLAGS.len() {
        for &w in &widths {
            for &p in &precs {
                all_specs.push((fi, w, p));
            }
        }
    }
    all_specs.extend(fmtgrid::long_specs(thorough()));
    for a in amounts() {
        // memoises the amount-text verdict per (text, precision) - for THIS amount only
        let mut cache = HashMap::new();
        rep.inc("states");
        let q = Q::new(a, u);
        // the grid, then the specifications far beyond it (one flag combination each)
        for &(fi, w, p) in all_specs.iter() {
            let flags = &FLAGS[fi];
            {
                {
                    if w.map_or(false, |w| w > 40) || p.map_or(false, |p| p > 20) {
                        rep.inc("long_specs");
                    }
                    rep.inc("transitions");
                    let spec = Spec { flags: *flags, width: w, prec: p };
                    let mk = || case(key, "format!(value)", json!({"value": show_q(a, b.vname(iu)), "symbol": sym, "spec": spec.show()}));
                    let s = match guard(|| fmtgrid::apply(fi, w, p, &q)) {
                        Ok(s) => s,
                        Err(e) => {
                            rep.violation("C15/panic", mk(), format!("panic: {e}"), "a string".into());
                            continue;
                        }
                    };
                    match judge_value(&s, a, &sym, &spec, &mut cache) {
                        Ok(()) => {
                            rep.inc("sensitive");
                            if fi == 17 && w == Some(12) && p == Some(2) && rep.samples.is_empty() {
                                rep.sample(json!({"value": show_q(a, b.vname(iu)), "spec": spec.show(), "text": s}));
                            }
                        }
                        Err((class, why)) => {
                            // refine the class for the two sub-populations that have their own history
                            let class = if class == "C15/layout" && !sym.is_ascii() && spec.width.is_some() {
                                "C15/layout/non-ascii-symbol".to_string()
                            } else if class == "C15/layout" && amt::is_zero(a) && is_negative(a) {
                                "C15/negative-zero-sign".to_string()
                            } else {
                                class.to_string()
                            };
                            rep.violation(&class, mk(), format!("{:?}", s), why);
                        }
                    }
                }
            }
        }
    }
}

/// expected text of a rate under `{}`
pub fn rate_text<TQ: Quantity, PQ: Quantity>(r: &Rate<TQ, PQ>) -> String
where
    A: Display,
{
    let (ts, ps) = (r.term_unit().symbol(), r.per_unit().symbol());
    let term = if ts.is_empty() { format!("{}", r.term_amount()) } else { format!("{} {}", r.term_amount(), ts) };
    let per = if ps.is_empty() {
        format!("{}", r.per_unit_multiple())
    } else if r.per_unit_multiple() == amt::parse("1") {
        ps
    } else {
        format!("{} {}", r.per_unit_multiple(), ps)
    };
    format!("{term} / {per}")
}
