//! Shared oracles and alphabets.
use crate::amt::{self, A};
use qv_model::calc::{self, convert_spec, in_dec_range, in_f64_band, ErrVal};
use qv_model::{Backend, Rat, UnitModel};

pub const BE: Backend = amt::BACKEND;

/// is x an admissible magnitude for value checking in this back-end?
pub fn in_domain(r: &Rat) -> bool {
    match BE {
        Backend::F64 => in_f64_band(r),
        Backend::Dec => in_dec_range(r),
    }
}

/// Specification of `a [u] -> [v]`; None when the case lies outside the value-checked domain.
pub fn conv_spec_in_domain(a: &Rat, su: &UnitModel, sv: &UnitModel) -> Option<ErrVal> {
    let s_u = su.scale.as_ref()?;
    let s_v = sv.scale.as_ref()?;
    if !in_domain(a) {
        return None;
    }
    let mag = a.mul(s_u);
    if !in_domain(&mag) {
        return None;
    }
    let e = mag.div(s_v);
    if !in_domain(&e) {
        return None;
    }
    if BE == Backend::Dec && !in_dec_range(&s_u.div(s_v)) {
        return None;
    }
    convert_spec(a, su, sv, BE)
}

/// relative tolerance below which a gross error (wrong unit, inverted ratio, swapped operands, a
/// mistyped digit) would exceed the acceptance bound by >= 1000x
pub const SENSITIVE_REL: f64 = 1e-7;

pub fn scales_differ(su: &UnitModel, sv: &UnitModel) -> bool {
    match (&su.scale, &sv.scale) {
        (Some(a), Some(b)) => !a.eq(b),
        _ => false,
    }
}

/// Amounts in unit u that denote (nearly) the same magnitude as `a` in unit v, with k neighbours.
pub fn same_magnitude_partners(a: A, su: &UnitModel, sv: &UnitModel, k: usize) -> Vec<A> {
    let (Some(s_u), Some(s_v)) = (&su.scale, &sv.scale) else { return vec![] };
    let Some(ar) = amt::to_rat(a) else { return vec![] };
    let target = ar.mul(s_v).div(s_u);
    if !in_domain(&target) {
        return vec![];
    }
    match amt::near(&target) {
        Some(x) => amt::neighbourhood(x, k),
        None => vec![],
    }
}

pub fn rat_of(a: A) -> Option<Rat> {
    amt::to_rat(a)
}

pub use calc::SLACK;

/// Consumption schedules of a double-ended iterator over `want.len()` items: i items from the front, then j from the
/// back, then the rest from the front - for all i, j - the mirror images, and the two strict alternations.  Every
/// schedule must yield each item exactly once: front items in order, back items in reverse order, `None` afterwards,
/// and a size hint that brackets what is left.  Returns the number of schedules explored or the first deviation.
pub fn both_ends_schedules<I, T>(mk: impl Fn() -> I, want: &[T]) -> Result<u64, String>
where
    I: DoubleEndedIterator<Item = T>,
    T: PartialEq + std::fmt::Debug,
{
    let n = want.len();
    let mut schedules: Vec<Vec<bool>> = Vec::new(); // true = front
    for i in 0..=n {
        for j in 0..=(n - i) {
            let mut a = vec![true; i];
            a.extend(std::iter::repeat(false).take(j));
            a.extend(std::iter::repeat(true).take(n - i - j));
            schedules.push(a.clone());
            schedules.push(a.iter().map(|x| !x).collect());
        }
    }
    schedules.push((0..n).map(|k| k % 2 == 0).collect());
    schedules.push((0..n).map(|k| k % 2 == 1).collect());
    let mut count = 0u64;
    for sch in &schedules {
        count += 1;
        let mut it = mk();
        let (mut lo, mut hi) = (0usize, n);
        for (step, &front) in sch.iter().enumerate() {
            let (hint_lo, hint_hi) = it.size_hint();
            let left = hi - lo;
            if hint_lo > left || hint_hi.map_or(false, |h| h < left) {
                return Err(format!("schedule {:?}: size_hint {:?} with {left} items left", show_schedule(sch), (hint_lo, hint_hi)));
            }
            let (got, exp) = if front {
                let g = it.next();
                lo += 1;
                (g, &want[lo - 1])
            } else {
                let g = it.next_back();
                hi -= 1;
                (g, &want[hi])
            };
            if got.as_ref() != Some(exp) {
                return Err(format!("schedule {:?}: step {step} ({}) yields {:?}, expected {:?}", show_schedule(sch), if front { "next" } else { "next_back" }, got, exp));
            }
        }
        let (a, b) = (it.next(), it.next_back());
        if a.is_some() || b.is_some() {
            return Err(format!("schedule {:?}: yields {:?} / {:?} after all {n} items were consumed", show_schedule(sch), a, b));
        }
    }
    Ok(count)
}

fn show_schedule(s: &[bool]) -> String {
    s.iter().map(|&f| if f { 'F' } else { 'B' }).collect()
}
