//! Shared oracles and alphabets.
use crate::amt::{self, A};
use qv_model::calc::{self, convert_spec, in_dec_range, in_f64_band, ErrVal};
use qv_model::{Backend, Rat, UnitModel};

pub const BE: Backend = amt::BACKEND;

/// is x an admissible magnitude for value checking in this back-end?
pub fn in_domain(r: &Rat) -> bool {
    match BE {
        Backend::F64 => in_f64_band(r),
        Backend::Dec => in_dec_range(r),
    }
}

/// Specification of `a [u] -> [v]`; None when the case lies outside the value-checked domain.
pub fn conv_spec_in_domain(a: &Rat, su: &UnitModel, sv: &UnitModel) -> Option<ErrVal> {
    let s_u = su.scale.as_ref()?;
    let s_v = sv.scale.as_ref()?;
    if !in_domain(a) {
        return None;
    }
    let mag = a.mul(s_u);
    if !in_domain(&mag) {
        return None;
    }
    let e = mag.div(s_v);
    if !in_domain(&e) {
        return None;
    }
    if BE == Backend::Dec && !in_dec_range(&s_u.div(s_v)) {
        return None;
    }
    convert_spec(a, su, sv, BE)
}

/// relative tolerance below which a gross error (wrong unit, inverted ratio, swapped operands, a
/// mistyped digit) would exceed the acceptance bound by >= 1000x
pub const SENSITIVE_REL: f64 = 1e-7;

pub fn scales_differ(su: &UnitModel, sv: &UnitModel) -> bool {
    match (&su.scale, &sv.scale) {
        (Some(a), Some(b)) => !a.eq(b),
        _ => false,
    }
}

/// Amounts in unit u that denote (nearly) the same magnitude as `a` in unit v, with k neighbours.
pub fn same_magnitude_partners(a: A, su: &UnitModel, sv: &UnitModel, k: usize) -> Vec<A> {
    let (Some(s_u), Some(s_v)) = (&su.scale, &sv.scale) else { return vec![] };
    let Some(ar) = amt::to_rat(a) else { return vec![] };
    let target = ar.mul(s_v).div(s_u);
    if !in_domain(&target) {
        return vec![];
    }
    match amt::near(&target) {
        Some(x) => amt::neighbourhood(x, k),
        None => vec![],
    }
}

pub fn rat_of(a: A) -> Option<Rat> {
    amt::to_rat(a)
}

pub use calc::SLACK;
