//! Explorer infrastructure: context, work blocks, reports, unit binding.

use crate::amt::{self, A};
use crate::Tier;
use qv_model::{Model, TypeModel, UnitModel};
use quantities::Quantity;
use serde_json::{json, Value};
use std::collections::BTreeMap;
use std::fmt::Debug;
use std::panic::{catch_unwind, AssertUnwindSafe};
use std::sync::atomic::{AtomicUsize, Ordering};
use std::sync::{Mutex, OnceLock};

pub struct Ctx {
    pub model: Model,
    pub tier: Tier,
}

static CTX: OnceLock<Ctx> = OnceLock::new();

pub fn init_ctx(model_path: &str, tier: Tier) {
    let model = Model::load(model_path);
    let _ = CTX.set(Ctx { model, tier });
}
pub fn ctx() -> &'static Ctx {
    CTX.get().expect("context not initialised")
}
pub fn tier() -> Tier {
    ctx().tier
}
pub fn thorough() -> bool {
    ctx().tier == Tier::Thorough
}

/// Blanket helper bounds for quantity and unit types handled generically.
pub trait QB: Copy + Debug + Send + Sync + 'static {}
impl<T: Copy + Debug + Send + Sync + 'static> QB for T {}
pub trait UB: Copy + Debug + PartialEq + Send + Sync + 'static {}
impl<T: Copy + Debug + PartialEq + Send + Sync + 'static> UB for T {}

#[derive(Clone, Debug)]
pub struct Violation {
    /// narrow classification used to match known findings
    pub class: String,
    pub block: String,
    pub case: Value,
    pub observed: String,
    pub expected: String,
}

const MAX_FULL_VIOLATIONS: usize = 60;
const MAX_SAMPLES: usize = 8;

#[derive(Default)]
pub struct Report {
    pub counters: BTreeMap<String, u64>,
    pub violations: Vec<Violation>,
    pub by_class: BTreeMap<String, u64>,
    pub n_violations: u64,
    pub samples: Vec<Value>,
    pub notes: Vec<String>,
    /// harness-side failures (universe mismatch, floor not reached): never a verdict
    pub machinery: Vec<String>,
    pub block: String,
}

impl Report {
    pub fn count(&mut self, k: &str, n: u64) {
        if n > 0 {
            *self.counters.entry(k.to_string()).or_insert(0) += n;
        }
    }
    pub fn inc(&mut self, k: &str) {
        self.count(k, 1);
    }
    pub fn get(&self, k: &str) -> u64 {
        self.counters.get(k).copied().unwrap_or(0)
    }
    pub fn violation(&mut self, class: &str, case: Value, observed: String, expected: String) {
        self.n_violations += 1;
        let n = self.by_class.entry(class.to_string()).or_insert(0);
        *n += 1;
        // keep the first few of every class so that a flood in one class cannot hide another
        if *n <= 5 && self.violations.len() < MAX_FULL_VIOLATIONS * 4 {
            self.violations.push(Violation {
                class: class.to_string(),
                block: self.block.clone(),
                case,
                observed,
                expected,
            });
        }
    }
    pub fn sample(&mut self, v: Value) {
        if self.samples.len() < 2 {
            self.samples.push(v);
        }
    }
    pub fn note(&mut self, s: String) {
        if self.notes.len() < 40 && !self.notes.contains(&s) {
            self.notes.push(s);
        }
    }
    pub fn merge(&mut self, o: Report) {
        for (k, v) in o.counters {
            *self.counters.entry(k).or_insert(0) += v;
        }
        for (k, v) in o.by_class {
            let n = self.by_class.entry(k.clone()).or_insert(0);
            let before = *n;
            *n += v;
            // keep at most 5 full examples per class overall
            let keep = 5u64.saturating_sub(before) as usize;
            let mut taken = 0;
            for viol in o.violations.iter().filter(|x| x.class == k) {
                if taken >= keep || self.violations.len() >= MAX_FULL_VIOLATIONS {
                    break;
                }
                self.violations.push(viol.clone());
                taken += 1;
            }
        }
        self.n_violations += o.n_violations;
        for s in o.samples {
            if self.samples.len() < MAX_SAMPLES {
                self.samples.push(s);
            }
        }
        for n in o.notes {
            self.note(n);
        }
        self.machinery.extend(o.machinery);
    }
    pub fn merge_front(&mut self, o: Report) {
        self.merge(o);
    }
    pub fn to_json(&self, prop: &str, tier: Tier, n_blocks: usize, wall: f64) -> Value {
        json!({
            "property": prop,
            "backend": amt::BACKEND_NAME,
            "tier": if tier == Tier::Thorough { "thorough" } else { "quick" },
            "blocks": n_blocks,
            "wall_s": wall,
            "counters": self.counters,
            "n_violations": self.n_violations,
            "by_class": self.by_class,
            "violations": self.violations.iter().map(|v| json!({
                "class": v.class, "block": v.block, "case": v.case,
                "observed": v.observed, "expected": v.expected})).collect::<Vec<_>>(),
            "samples": self.samples,
            "notes": self.notes,
            "machinery": self.machinery,
        })
    }
}

pub struct Block {
    pub id: String,
    pub run: Box<dyn FnOnce(&mut Report) + Send>,
}

impl Block {
    pub fn new(id: String, f: impl FnOnce(&mut Report) + Send + 'static) -> Block {
        Block { id, run: Box::new(f) }
    }
}

/// Run all blocks on a thread pool; merge the per-block reports in block order (deterministic).
pub fn run_blocks(blocks: Vec<Block>, threads: usize) -> Report {
    let n = blocks.len();
    let slots: Vec<Mutex<Option<Block>>> = blocks.into_iter().map(|b| Mutex::new(Some(b))).collect();
    let results: Vec<Mutex<Option<Report>>> = (0..n).map(|_| Mutex::new(None)).collect();
    let next = AtomicUsize::new(0);
    std::thread::scope(|s| {
        for _ in 0..threads.max(1).min(n.max(1)) {
            s.spawn(|| loop {
                let i = next.fetch_add(1, Ordering::SeqCst);
                if i >= n {
                    break;
                }
                let b = slots[i].lock().unwrap().take().unwrap();
                let mut rep = Report { block: b.id.clone(), ..Default::default() };
                let id = b.id.clone();
                let run = b.run;
                let r = catch_unwind(AssertUnwindSafe(|| run(&mut rep)));
                if let Err(e) = r {
                    rep.machinery.push(format!("explorer block {id} panicked outside a guarded operation: {}", panic_msg(&e)));
                }
                rep.inc("blocks_run");
                *results[i].lock().unwrap() = Some(rep);
            });
        }
    });
    let mut total = Report::default();
    for r in results {
        if let Some(rep) = r.into_inner().unwrap() {
            total.merge(rep);
        }
    }
    total
}

pub fn panic_msg(e: &Box<dyn std::any::Any + Send>) -> String {
    if let Some(s) = e.downcast_ref::<&str>() {
        s.to_string()
    } else if let Some(s) = e.downcast_ref::<String>() {
        s.clone()
    } else {
        "<non-string panic payload>".to_string()
    }
}

/// Run one operation of the subject under catch_unwind.
pub fn guard<T>(f: impl FnOnce() -> T) -> Result<T, String> {
    catch_unwind(AssertUnwindSafe(f)).map_err(|e| panic_msg(&e))
}

/// The units of an implementation type bound to the units of its model, by Debug variant name
/// (derive-generated, independent of the name()/symbol()/scale() tables under test).
pub struct Bind<Q: Quantity> {
    pub tm: &'static TypeModel,
    /// implementation units in model order
    pub units: Vec<Q::UnitType>,
}

impl<Q: Quantity> Clone for Bind<Q> {
    fn clone(&self) -> Self {
        Bind { tm: self.tm, units: self.units.clone() }
    }
}

impl<Q: Quantity> Bind<Q>
where
    Q::UnitType: UB,
{
    pub fn um(&self, i: usize) -> &'static UnitModel {
        &self.tm.units[i]
    }
    pub fn n(&self) -> usize {
        self.units.len()
    }
    pub fn index_of(&self, u: Q::UnitType) -> Option<usize> {
        // identity by enum discriminant, not by the unit type's own `==` (part of the code under test, seed r7-C14)
        self.units.iter().position(|x| core::mem::discriminant(x) == core::mem::discriminant(&u))
    }
    pub fn vname(&self, i: usize) -> &'static str {
        &self.tm.units[i].variant
    }
}

pub fn bind<Q: Quantity>(key: &str) -> Result<Bind<Q>, String>
where
    Q::UnitType: UB,
{
    let tm = ctx().model.get(key);
    let impl_units: Vec<Q::UnitType> = guard(|| Q::iter_units().collect::<Vec<_>>()).map_err(|e| format!("{key}: iter_units panicked: {e}"))?;
    let mut units = Vec::new();
    for um in &tm.units {
        match impl_units.iter().find(|u| format!("{:?}", u) == um.variant) {
            Some(u) => units.push(*u),
            None => return Err(format!("{key}: model unit {} has no implementation variant", um.variant)),
        }
    }
    for u in &impl_units {
        let name = format!("{:?}", u);
        if !tm.units.iter().any(|m| m.variant == name) {
            return Err(format!("{key}: implementation unit {name} is not in the model"));
        }
    }
    Ok(Bind { tm, units })
}

/// bind or record a machinery failure (used by every check except C07/C09, which report a
/// universe mismatch as a violation of their own)
pub fn bind_or_fail<Q: Quantity>(key: &str, setup: &mut Report) -> Option<Bind<Q>>
where
    Q::UnitType: UB,
{
    match bind::<Q>(key) {
        Ok(b) => Some(b),
        Err(e) => {
            setup.machinery.push(format!("universe mismatch: {e} (see checks C07/C09 for the verdict)"));
            None
        }
    }
}

pub fn show_q(amount: A, unit: &str) -> String {
    format!("{} {}", amt::show(amount), unit)
}

pub fn case(ty: &str, op: &str, fields: Value) -> Value {
    json!({"backend": amt::BACKEND_NAME, "type": ty, "op": op, "args": fields})
}
