//! E1: value-space explorer.  Runs the real quantities crate in lock-step with the reference
//! model (qv-model) over exhaustively enumerated bounded alphabets.  See /verif/DESIGN.md.
#![allow(clippy::too_many_arguments, clippy::type_complexity)]

#[cfg(feature = "dec")]
#[path = "amt_dec.rs"]
pub mod amt;
#[cfg(not(feature = "dec"))]
#[path = "amt_f64.rs"]
pub mod amt;

pub mod core;
pub mod gen;
pub mod props;

use crate::core::*;
use std::time::Instant;

#[derive(Clone, Copy, Debug, PartialEq, Eq)]
pub enum Tier {
    Quick,
    Thorough,
}

fn main() {
    let args: Vec<String> = std::env::args().collect();
    let mut prop = String::new();
    let mut tier = Tier::Quick;
    let mut model_path = String::from("../build/model.json");
    let mut out_path = String::new();
    let mut only_block: Option<String> = None;
    let mut threads = std::thread::available_parallelism().map(|n| n.get()).unwrap_or(8);
    let mut i = 1;
    while i < args.len() {
        match args[i].as_str() {
            "--tier" => {
                i += 1;
                tier = if args[i] == "thorough" { Tier::Thorough } else { Tier::Quick };
            }
            "--model" => {
                i += 1;
                model_path = args[i].clone();
            }
            "--out" => {
                i += 1;
                out_path = args[i].clone();
            }
            "--block" => {
                i += 1;
                only_block = Some(args[i].clone());
            }
            "--threads" => {
                i += 1;
                threads = args[i].parse().unwrap();
            }
            s if prop.is_empty() => prop = s.to_string(),
            s => {
                eprintln!("unexpected argument {s}");
                std::process::exit(2);
            }
        }
        i += 1;
    }
    if prop.is_empty() {
        eprintln!("usage: qv-drive <property|selftest|list> [--tier quick|thorough] [--model p] [--out p] [--block id]");
        std::process::exit(2);
    }
    init_ctx(&model_path, tier);
    // every operation under test runs under catch_unwind; keep the panic messages out of the log
    std::panic::set_hook(Box::new(|_| {}));
    let t0 = Instant::now();
    let mut blocks: Vec<Block> = Vec::new();
    let mut setup = Report::default();
    props::collect(&prop, &mut blocks, &mut setup);
    if let Some(b) = &only_block {
        match b.strip_suffix('*') {
            // a trailing '*' selects every block whose id starts with the text before it (profiling aid)
            Some(prefix) => blocks.retain(|x| x.id.starts_with(prefix)),
            None => blocks.retain(|x| &x.id == b),
        }
        if blocks.is_empty() {
            eprintln!("no such block: {b}");
            std::process::exit(2);
        }
    }
    let n_blocks = blocks.len();
    let mut total = run_blocks(blocks, threads);
    total.merge_front(setup);
    let wall = t0.elapsed().as_secs_f64();
    let doc = total.to_json(&prop, tier, n_blocks, wall);
    let text = serde_json::to_string_pretty(&doc).unwrap();
    if out_path.is_empty() {
        println!("{text}");
    } else {
        std::fs::write(&out_path, text).expect("cannot write --out file");
    }
    if !total.machinery.is_empty() {
        for m in &total.machinery {
            eprintln!("MACHINERY: {m}");
        }
        std::process::exit(2);
    }
    std::process::exit(if total.n_violations > 0 { 1 } else { 0 });
}
