//! Amount back-end glue: fpdec::Decimal (fixed point, <= 18 fractional digits, i128 coefficient).
use crate::Tier;
use fpdec::Decimal;
use qv_model::{Backend, BigInt, Rat};
use std::str::FromStr;

pub type A = Decimal;
pub const BACKEND: Backend = Backend::Dec;
pub const BACKEND_NAME: &str = "dec";

pub fn to_rat(a: A) -> Option<Rat> {
    Some(Rat::from_decimal(a.coefficient(), a.n_frac_digits() as u32))
}
/// identity of a stored amount: coefficient and digit count
pub fn key(a: A) -> (i128, i32) {
    (a.coefficient(), a.n_frac_digits() as i32)
}
pub fn same(a: A, b: A) -> bool {
    key(a) == key(b)
}
pub fn is_nan(_a: A) -> bool {
    false
}
pub fn is_finite(_a: A) -> bool {
    true
}
pub fn is_zero(a: A) -> bool {
    a.coefficient() == 0
}
pub fn show(a: A) -> String {
    format!("{}[{}e-{}]", a, a.coefficient(), a.n_frac_digits())
}
pub fn parse(s: &str) -> A {
    Decimal::from_str(s).unwrap_or_else(|e| panic!("bad decimal literal {s}: {e:?}"))
}
pub fn neg(a: A) -> A {
    -a
}
pub fn abs(a: A) -> A {
    a.abs()
}
fn quantum() -> A {
    Decimal::new_raw(1, 18)
}
pub fn next_up(a: A) -> A {
    a + quantum()
}
pub fn next_down(a: A) -> A {
    a - quantum()
}
pub fn neighbourhood(a: A, k: usize) -> Vec<A> {
    let mut out = vec![a];
    // adding 1e-18 needs the coefficient rescaled to 18 digits: stay inside i128
    if a.coefficient().unsigned_abs() < (1u128 << 100) / 10u128.pow(18 - a.n_frac_digits() as u32).max(1) {
        let (mut u, mut d) = (a, a);
        for _ in 0..k {
            u = next_up(u);
            d = next_down(d);
            out.push(u);
            out.push(d);
        }
    }
    out
}
/// the decimal with <= 18 fractional digits nearest to r (None if out of the coefficient range)
pub fn near(r: &Rat) -> Option<A> {
    let c: BigInt = r.round_scaled10(18);
    let mut c = c.to_i128()?;
    if c.unsigned_abs() > (1u128 << 120) {
        return None;
    }
    let mut d = 18u8;
    while d > 0 && c % 10 == 0 {
        c /= 10;
        d -= 1;
    }
    Some(Decimal::new_raw(c, d))
}

const V_QUICK: &[&str] = &[
    "0", "1", "-1", "2", "3", "0.5", "0.1", "0.3", "17.4", "-17.4", "0.37", "2.54", "60", "1024", "1e-15", "1e-11",
    "1e-7", "1e-3", "1e5", "1e9", "1e13", "1e17", "123456.789",
];

pub fn alphabet_v(tier: Tier) -> Vec<A> {
    let mut v: Vec<A> = V_QUICK.iter().map(|s| parse(s)).collect();
    // the last two: 12 + 9 fractional digits - their product needs more than 18 although neither operand has 18
    for s in ["0.333333333333333333", "1.000000000000000001", "0.999999999999999999", "99999999999999999", "1.50", "0.123456789012", "-0.123456789",
              // whole numbers carried with all 18 fractional digits (as arithmetic leaves them)
              "20.000000000000000000", "-30000.000000000000000000"] {
        v.push(parse(s));
    }
    if tier == Tier::Thorough {
        for k in -15..=17 {
            v.push(parse(&format!("1e{k}")));
        }
        for d in -6..=6 {
            for n in 1..=9 {
                v.push(parse(&format!("{n}e{d}")));
                v.push(parse(&format!("-{n}e{d}")));
            }
        }
        for s in ["-0.5", "-2.54", "299792458", "-273.15", "0.000000000000001602", "31557600", "-0.45359237"] {
            v.push(parse(s));
        }
    }
    dedup(v)
}

pub fn alphabet_small(tier: Tier) -> Vec<A> {
    let base: &[&str] = if tier == Tier::Thorough {
        &["0", "1", "-1", "2", "0.5", "0.1", "17.4", "-2.54", "60", "1e-6", "1e3", "1e9", "123456.789", "0.37", "3"]
    } else {
        &["0", "1", "-1", "2", "0.5", "17.4", "-2.54", "1e-6", "1e3", "123456.789"]
    };
    dedup(base.iter().map(|s| parse(s)).collect())
}

/// no special values exist in this back-end
pub fn alphabet_s() -> Vec<A> {
    vec![parse("0"), parse("-0.0")]
}

/// range-edge alphabet of C18
pub fn alphabet_r() -> Vec<A> {
    ["1e-15", "-1e-15", "1e17", "-1e17", "99999999999999999", "-99999999999999999", "1.5e-15", "-1.5e-15"]
        .iter()
        .map(|s| parse(s))
        .collect()
}

pub fn dedup(v: Vec<A>) -> Vec<A> {
    let mut seen = std::collections::HashSet::new();
    v.into_iter().filter(|x| seen.insert(key(*x))).collect()
}
