//! Amount back-end glue: binary f64.
use crate::Tier;
use qv_model::{Backend, Rat};

pub type A = f64;
pub const BACKEND: Backend = Backend::F64;
pub const BACKEND_NAME: &str = "f64";

pub fn to_rat(a: A) -> Option<Rat> {
    Rat::from_f64(a)
}
/// identity of a stored amount (bit pattern)
pub fn key(a: A) -> (i128, i32) {
    (a.to_bits() as i128, 0)
}
/// bit-identical; all NaNs are identified (payload propagation is no part of any property)
pub fn same(a: A, b: A) -> bool {
    (a.is_nan() && b.is_nan()) || a.to_bits() == b.to_bits()
}
pub fn is_nan(a: A) -> bool {
    a.is_nan()
}
pub fn is_finite(a: A) -> bool {
    a.is_finite()
}
pub fn is_zero(a: A) -> bool {
    a == 0.0
}
pub fn show(a: A) -> String {
    format!("{:?}[{:#018x}]", a, a.to_bits())
}
pub fn parse(s: &str) -> A {
    s.parse::<f64>().unwrap_or_else(|_| panic!("bad f64 literal {s}"))
}
pub fn neg(a: A) -> A {
    -a
}
pub fn abs(a: A) -> A {
    a.abs()
}
pub fn next_up(a: A) -> A {
    if a.is_nan() || a == f64::INFINITY {
        return a;
    }
    if a == 0.0 {
        return f64::from_bits(1);
    }
    let b = a.to_bits();
    f64::from_bits(if a > 0.0 { b + 1 } else { b - 1 })
}
pub fn next_down(a: A) -> A {
    -next_up(-a)
}
/// the value itself and its k nearest representable neighbours on each side
pub fn neighbourhood(a: A, k: usize) -> Vec<A> {
    let mut out = vec![a];
    let (mut u, mut d) = (a, a);
    for _ in 0..k {
        u = next_up(u);
        d = next_down(d);
        out.push(u);
        out.push(d);
    }
    out
}
/// a representable amount close to r (within a few ulps; callers add the neighbourhood)
pub fn near(r: &Rat) -> Option<A> {
    let x = r.to_f64();
    if x.is_finite() {
        Some(x)
    } else {
        None
    }
}

const V_QUICK: &[&str] = &[
    "0", "1", "-1", "2", "3", "0.5", "0.1", "0.3", "17.4", "-17.4", "0.37", "2.54", "60", "1024", "1e-9", "1e-6",
    "1e-3", "1e3", "1e6", "1e9", "1e12", "123456.789",
    // below f64::EPSILON in absolute value (a tolerance written as an absolute epsilon treats them as zero / equal)
    "1e-17", "-5e-19",
];

pub fn alphabet_v(tier: Tier) -> Vec<A> {
    let mut v: Vec<A> = V_QUICK.iter().map(|s| parse(s)).collect();
    // representation edges
    v.push(9007199254740991.0); // 2^53 - 1
    v.push(1.0 + f64::EPSILON); // 1 + 2^-52
    v.push(1.0 - f64::EPSILON / 2.0); // 1 - 2^-53
    v.push(0.1 + 0.2);
    if tier == Tier::Thorough {
        for k in -30..=30 {
            v.push(parse(&format!("1e{k}")));
        }
        for d in -6..=6 {
            for n in 1..=9 {
                v.push(parse(&format!("{n}e{d}")));
                v.push(parse(&format!("-{n}e{d}")));
            }
        }
        for s in ["-0.5", "-2.54", "1e100", "-1e-100", "299792458", "-273.15", "6.02214076e23", "1.602176634e-19"] {
            v.push(parse(s));
        }
    }
    dedup(v)
}

/// a smaller value alphabet for products of three alphabets
pub fn alphabet_small(tier: Tier) -> Vec<A> {
    let base: &[&str] = if tier == Tier::Thorough {
        &["0", "1", "-1", "2", "0.5", "0.1", "17.4", "-2.54", "60", "1e-6", "1e3", "1e9", "123456.789", "0.37", "3", "1e-17", "-5e-19"]
    } else {
        &["0", "1", "-1", "2", "0.5", "17.4", "-2.54", "1e-6", "1e3", "123456.789", "1e-17"]
    };
    dedup(base.iter().map(|s| parse(s)).collect())
}

/// special alphabet: every IEEE class
pub fn alphabet_s() -> Vec<A> {
    let nan1 = f64::from_bits(0x7ff8_0000_0000_0000);
    let nan2 = f64::from_bits(0xfff4_0000_0000_0001);
    vec![
        0.0, -0.0, f64::INFINITY, f64::NEG_INFINITY, nan1, nan2, 5e-324, -5e-324, 1e-320, -1e-320,
        f64::MIN_POSITIVE, -f64::MIN_POSITIVE, f64::MAX, -f64::MAX, 1e300, -1e300, 1e-300, -1e-300,
    ]
}

/// range-edge alphabet (only meaningful for the decimal back-end)
pub fn alphabet_r() -> Vec<A> {
    Vec::new()
}

pub fn dedup(v: Vec<A>) -> Vec<A> {
    let mut seen = std::collections::HashSet::new();
    v.into_iter().filter(|x| seen.insert(key(*x))).collect()
}
