//! see Cargo.toml
