//! C17, second serde_json configuration (`arbitrary_precision`): every unit of every catalogue quantity x an amount
//! alphabet through JSON text, the value tree and bytes; prints one JSON report.
#![allow(unused_macros)]
use quantities::{AmountT, Quantity};
use serde::de::DeserializeOwned;
use serde::Serialize;
use serde_json::json;
use std::fmt::Debug;
use std::panic::{catch_unwind, AssertUnwindSafe};

include!("../../qv-drive/src/gen/registry.rs");

#[cfg(not(feature = "dec"))]
fn amounts() -> Vec<AmountT> {
    vec![0.0, -0.0, 1.0, 2.5, 0.1 + 0.2, 5e-324, f64::MAX, -f64::MAX, 1.0 / 3.0, 123456.78901234567, 1e21, -1e-7, 9007199254740993.0, 4.35, 1e-5]
}
#[cfg(feature = "dec")]
fn amounts() -> Vec<AmountT> {
    ["0", "-0.0", "1", "2.5", "0.333333333333333333", "1.50", "1.500000000000000000", "99999999999999999", "-0.000000000000000001", "100", "0.10",
     "-12345678901234567.123456789012345678"]
        .iter()
        .map(|s| <AmountT as std::str::FromStr>::from_str(s).unwrap())
        .collect()
}

#[cfg(not(feature = "dec"))]
fn same(a: AmountT, b: AmountT) -> bool {
    a.to_bits() == b.to_bits()
}
#[cfg(feature = "dec")]
fn same(a: AmountT, b: AmountT) -> bool {
    a.coefficient() == b.coefficient() && a.n_frac_digits() == b.n_frac_digits()
}

struct Out {
    round_trips: u64,
    units: u64,
    violations: Vec<serde_json::Value>,
}

fn add_type<Q>(key: &str, out: &mut Out)
where
    Q: Quantity + Serialize + DeserializeOwned + Debug,
    Q::UnitType: Serialize + DeserializeOwned + Debug + PartialEq,
{
    for u in Q::iter_units() {
        out.units += 1;
        for a in amounts() {
            let q = Q::new(a, u);
            let channels: [(&str, Box<dyn Fn() -> Result<Q, String>>); 3] = [
                ("from_str(to_string(q))", Box::new(|| serde_json::to_string(&q).map_err(|e| e.to_string()).and_then(|t| serde_json::from_str::<Q>(&t).map_err(|e| format!("{e} [{t}]"))))),
                ("from_value(to_value(q))", Box::new(|| serde_json::to_value(&q).map_err(|e| e.to_string()).and_then(|v| serde_json::from_value::<Q>(v).map_err(|e| e.to_string())))),
                ("from_slice(to_vec(q))", Box::new(|| serde_json::to_vec(&q).map_err(|e| e.to_string()).and_then(|v| serde_json::from_slice::<Q>(&v).map_err(|e| e.to_string())))),
            ];
            for (what, f) in channels.iter() {
                out.round_trips += 1;
                let got = catch_unwind(AssertUnwindSafe(|| f()));
                let ok = matches!(&got, Ok(Ok(r)) if r.unit() == u && same(r.amount(), a));
                if !ok && out.violations.len() < 50 {
                    let observed = match got {
                        Ok(Ok(r)) => format!("{:?}", r),
                        Ok(Err(e)) => format!("error: {e}"),
                        Err(_) => "panic".to_string(),
                    };
                    out.violations.push(json!({"type": key, "op": what, "value": format!("{:?}", q), "observed": observed}));
                } else if !ok {
                    out.violations.push(json!({"type": key, "op": what}));
                }
            }
        }
    }
}

fn main() {
    std::panic::set_hook(Box::new(|_| {}));
    let mut out = Out { round_trips: 0, units: 0, violations: Vec::new() };
    for_each_main_type!(add_type, &mut out);
    println!("{}", json!({"round_trips": out.round_trips, "units": out.units, "violations": out.violations}));
}
