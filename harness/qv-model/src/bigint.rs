//! Minimal arbitrary-precision signed integer (no big-number crate is available offline).
//! Magnitude = little-endian base-2^32 limbs without trailing zero limbs; zero = empty.
//! Differentially tested against Python's integers (`qv-drive selftest`, lib/selftest.py).

use std::cmp::Ordering;

#[derive(Clone, Debug, PartialEq, Eq, Hash)]
pub struct BigInt {
    pub neg: bool,
    pub mag: Vec<u32>,
}

fn trim(v: &mut Vec<u32>) {
    while let Some(&0) = v.last() {
        v.pop();
    }
}

fn cmp_mag(a: &[u32], b: &[u32]) -> Ordering {
    if a.len() != b.len() {
        return a.len().cmp(&b.len());
    }
    for i in (0..a.len()).rev() {
        if a[i] != b[i] {
            return a[i].cmp(&b[i]);
        }
    }
    Ordering::Equal
}

fn add_mag(a: &[u32], b: &[u32]) -> Vec<u32> {
    let (a, b) = if a.len() >= b.len() { (a, b) } else { (b, a) };
    let mut out = Vec::with_capacity(a.len() + 1);
    let mut carry = 0u64;
    for i in 0..a.len() {
        let s = a[i] as u64 + if i < b.len() { b[i] as u64 } else { 0 } + carry;
        out.push(s as u32);
        carry = s >> 32;
    }
    if carry != 0 {
        out.push(carry as u32);
    }
    out
}

/// a - b, requires a >= b
fn sub_mag(a: &[u32], b: &[u32]) -> Vec<u32> {
    let mut out = Vec::with_capacity(a.len());
    let mut borrow = 0i64;
    for i in 0..a.len() {
        let mut d = a[i] as i64 - borrow - if i < b.len() { b[i] as i64 } else { 0 };
        if d < 0 {
            d += 1 << 32;
            borrow = 1;
        } else {
            borrow = 0;
        }
        out.push(d as u32);
    }
    debug_assert_eq!(borrow, 0);
    trim(&mut out);
    out
}

fn mul_mag(a: &[u32], b: &[u32]) -> Vec<u32> {
    if a.is_empty() || b.is_empty() {
        return Vec::new();
    }
    let mut out = vec![0u32; a.len() + b.len()];
    for i in 0..a.len() {
        let mut carry = 0u64;
        let ai = a[i] as u64;
        if ai == 0 {
            continue;
        }
        for j in 0..b.len() {
            let t = ai * b[j] as u64 + out[i + j] as u64 + carry;
            out[i + j] = t as u32;
            carry = t >> 32;
        }
        let mut k = i + b.len();
        while carry != 0 {
            let t = out[k] as u64 + carry;
            out[k] = t as u32;
            carry = t >> 32;
            k += 1;
        }
    }
    trim(&mut out);
    out
}

fn shl_mag(a: &[u32], n: usize) -> Vec<u32> {
    if a.is_empty() {
        return Vec::new();
    }
    let limbs = n / 32;
    let bits = n % 32;
    let mut out = vec![0u32; limbs];
    if bits == 0 {
        out.extend_from_slice(a);
    } else {
        let mut carry = 0u32;
        for &x in a {
            out.push((x << bits) | carry);
            carry = x >> (32 - bits);
        }
        if carry != 0 {
            out.push(carry);
        }
    }
    out
}

fn shr_mag(a: &[u32], n: usize) -> Vec<u32> {
    let limbs = n / 32;
    let bits = n % 32;
    if limbs >= a.len() {
        return Vec::new();
    }
    let mut out = Vec::with_capacity(a.len() - limbs);
    for i in limbs..a.len() {
        let lo = a[i] >> bits;
        let hi = if bits != 0 && i + 1 < a.len() { a[i + 1] << (32 - bits) } else { 0 };
        out.push(lo | hi);
    }
    trim(&mut out);
    out
}

fn bits_mag(a: &[u32]) -> usize {
    match a.last() {
        None => 0,
        Some(&t) => (a.len() - 1) * 32 + (32 - t.leading_zeros() as usize),
    }
}

fn trailing_zeros_mag(a: &[u32]) -> usize {
    for (i, &x) in a.iter().enumerate() {
        if x != 0 {
            return i * 32 + x.trailing_zeros() as usize;
        }
    }
    0
}

/// (a / d, a % d) for a small divisor
fn divrem_small_mag(a: &[u32], d: u32) -> (Vec<u32>, u32) {
    let mut out = vec![0u32; a.len()];
    let mut rem = 0u64;
    for i in (0..a.len()).rev() {
        let cur = (rem << 32) | a[i] as u64;
        out[i] = (cur / d as u64) as u32;
        rem = cur % d as u64;
    }
    trim(&mut out);
    (out, rem as u32)
}

/// Binary long division of magnitudes (simple and obviously correct; used off the hot path).
fn divrem_mag(a: &[u32], b: &[u32]) -> (Vec<u32>, Vec<u32>) {
    assert!(!b.is_empty(), "division by zero");
    if cmp_mag(a, b) == Ordering::Less {
        return (Vec::new(), a.to_vec());
    }
    if b.len() == 1 {
        let (q, r) = divrem_small_mag(a, b[0]);
        return (q, if r == 0 { Vec::new() } else { vec![r] });
    }
    let shift = bits_mag(a) - bits_mag(b);
    let mut rem = a.to_vec();
    let mut q = vec![0u32; shift / 32 + 1];
    let mut d = shl_mag(b, shift);
    for s in (0..=shift).rev() {
        if cmp_mag(&rem, &d) != Ordering::Less {
            rem = sub_mag(&rem, &d);
            q[s / 32] |= 1 << (s % 32);
        }
        d = shr_mag(&d, 1);
    }
    trim(&mut q);
    (q, rem)
}

impl BigInt {
    pub fn zero() -> Self {
        BigInt { neg: false, mag: Vec::new() }
    }
    pub fn one() -> Self {
        BigInt::from_u64(1)
    }
    pub fn from_u64(v: u64) -> Self {
        let mut mag = vec![v as u32, (v >> 32) as u32];
        trim(&mut mag);
        BigInt { neg: false, mag }
    }
    pub fn from_i64(v: i64) -> Self {
        let mut r = BigInt::from_u64(v.unsigned_abs());
        r.neg = v < 0;
        r
    }
    pub fn from_u128(v: u128) -> Self {
        let mut mag = vec![v as u32, (v >> 32) as u32, (v >> 64) as u32, (v >> 96) as u32];
        trim(&mut mag);
        BigInt { neg: false, mag }
    }
    pub fn from_i128(v: i128) -> Self {
        let mut r = BigInt::from_u128(v.unsigned_abs());
        r.neg = v < 0;
        r
    }
    pub fn pow10(n: u32) -> Self {
        let mut r = BigInt::one();
        let mut left = n;
        while left >= 9 {
            r = r.mul(&BigInt::from_u64(1_000_000_000));
            left -= 9;
        }
        r.mul(&BigInt::from_u64(10u64.pow(left)))
    }
    pub fn pow2(n: usize) -> Self {
        BigInt::one().shl(n)
    }
    pub fn is_zero(&self) -> bool {
        self.mag.is_empty()
    }
    pub fn is_neg(&self) -> bool {
        self.neg && !self.mag.is_empty()
    }
    pub fn signum(&self) -> i32 {
        if self.mag.is_empty() {
            0
        } else if self.neg {
            -1
        } else {
            1
        }
    }
    pub fn abs(&self) -> Self {
        BigInt { neg: false, mag: self.mag.clone() }
    }
    pub fn neg(&self) -> Self {
        BigInt { neg: !self.neg && !self.mag.is_empty(), mag: self.mag.clone() }
    }
    pub fn bits(&self) -> usize {
        bits_mag(&self.mag)
    }
    pub fn trailing_zeros(&self) -> usize {
        trailing_zeros_mag(&self.mag)
    }
    pub fn shl(&self, n: usize) -> Self {
        BigInt { neg: self.neg, mag: shl_mag(&self.mag, n) }
    }
    /// shift of the magnitude (truncates toward zero)
    pub fn shr(&self, n: usize) -> Self {
        let mag = shr_mag(&self.mag, n);
        BigInt { neg: self.neg && !mag.is_empty(), mag }
    }
    pub fn add(&self, o: &Self) -> Self {
        if self.neg == o.neg {
            return BigInt { neg: self.neg, mag: add_mag(&self.mag, &o.mag) }.norm();
        }
        match cmp_mag(&self.mag, &o.mag) {
            Ordering::Equal => BigInt::zero(),
            Ordering::Greater => BigInt { neg: self.neg, mag: sub_mag(&self.mag, &o.mag) }.norm(),
            Ordering::Less => BigInt { neg: o.neg, mag: sub_mag(&o.mag, &self.mag) }.norm(),
        }
    }
    pub fn sub(&self, o: &Self) -> Self {
        self.add(&o.neg())
    }
    pub fn mul(&self, o: &Self) -> Self {
        BigInt { neg: self.neg != o.neg, mag: mul_mag(&self.mag, &o.mag) }.norm()
    }
    /// truncated division (quotient rounded toward zero, remainder has the sign of self)
    pub fn divrem(&self, o: &Self) -> (Self, Self) {
        let (q, r) = divrem_mag(&self.mag, &o.mag);
        (BigInt { neg: self.neg != o.neg, mag: q }.norm(), BigInt { neg: self.neg, mag: r }.norm())
    }
    fn norm(mut self) -> Self {
        trim(&mut self.mag);
        if self.mag.is_empty() {
            self.neg = false;
        }
        self
    }
    pub fn cmp(&self, o: &Self) -> Ordering {
        match (self.is_neg(), o.is_neg()) {
            (false, true) => Ordering::Greater,
            (true, false) => Ordering::Less,
            (false, false) => cmp_mag(&self.mag, &o.mag),
            (true, true) => cmp_mag(&o.mag, &self.mag),
        }
    }
    pub fn cmp_abs(&self, o: &Self) -> Ordering {
        cmp_mag(&self.mag, &o.mag)
    }
    /// The top (at most) 64 bits of the magnitude and the number of bits dropped below them.
    pub fn top64(&self) -> (u64, usize) {
        let b = self.bits();
        if b <= 64 {
            let mut v = 0u64;
            for (i, &x) in self.mag.iter().enumerate() {
                v |= (x as u64) << (32 * i);
            }
            (v, 0)
        } else {
            let sh = b - 64;
            let t = shr_mag(&self.mag, sh);
            let mut v = 0u64;
            for (i, &x) in t.iter().enumerate().take(2) {
                v |= (x as u64) << (32 * i);
            }
            (v, sh)
        }
    }
    pub fn to_u128(&self) -> Option<u128> {
        if self.mag.len() > 4 {
            return None;
        }
        let mut v = 0u128;
        for (i, &x) in self.mag.iter().enumerate() {
            v |= (x as u128) << (32 * i);
        }
        Some(v)
    }
    pub fn to_i128(&self) -> Option<i128> {
        let m = self.to_u128()?;
        if self.is_neg() {
            if m <= (i128::MAX as u128) + 1 {
                Some((m as i128).wrapping_neg())
            } else {
                None
            }
        } else if m <= i128::MAX as u128 {
            Some(m as i128)
        } else {
            None
        }
    }
    pub fn parse(s: &str) -> Option<Self> {
        let (neg, digits) = match s.strip_prefix('-') {
            Some(r) => (true, r),
            None => (false, s.strip_prefix('+').unwrap_or(s)),
        };
        if digits.is_empty() || !digits.bytes().all(|b| b.is_ascii_digit()) {
            return None;
        }
        let mut r = BigInt::zero();
        for chunk in digits.as_bytes().chunks(9) {
            let v: u64 = std::str::from_utf8(chunk).unwrap().parse().unwrap();
            r = r.mul(&BigInt::from_u64(10u64.pow(chunk.len() as u32))).add(&BigInt::from_u64(v));
        }
        r.neg = neg && !r.mag.is_empty();
        Some(r)
    }
    pub fn to_string(&self) -> String {
        if self.mag.is_empty() {
            return "0".to_string();
        }
        let mut parts = Vec::new();
        let mut cur = self.mag.clone();
        while !cur.is_empty() {
            let (q, r) = divrem_small_mag(&cur, 1_000_000_000);
            parts.push(r);
            cur = q;
        }
        let mut s = String::new();
        if self.neg {
            s.push('-');
        }
        s.push_str(&format!("{}", parts.last().unwrap()));
        for p in parts.iter().rev().skip(1) {
            s.push_str(&format!("{:09}", p));
        }
        s
    }
}
