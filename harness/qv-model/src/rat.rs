//! Exact rationals on top of `BigInt`.  Not gcd-normalised (values here live for one
//! transition only); common powers of two are stripped to keep dyadic values small.

use crate::bigint::BigInt;
use std::cmp::Ordering;

#[derive(Clone, Debug)]
pub struct Rat {
    pub n: BigInt,
    /// always > 0
    pub d: BigInt,
}

impl Rat {
    pub fn new(n: BigInt, d: BigInt) -> Self {
        assert!(!d.is_zero(), "zero denominator");
        let (n, d) = if d.is_neg() { (n.neg(), d.neg()) } else { (n, d) };
        Rat { n, d }.strip2()
    }
    fn strip2(self) -> Self {
        if self.n.is_zero() {
            return Rat { n: BigInt::zero(), d: BigInt::one() };
        }
        let t = self.n.trailing_zeros().min(self.d.trailing_zeros());
        if t == 0 {
            self
        } else {
            Rat { n: self.n.shr(t), d: self.d.shr(t) }
        }
    }
    pub fn zero() -> Self {
        Rat { n: BigInt::zero(), d: BigInt::one() }
    }
    pub fn one() -> Self {
        Rat { n: BigInt::one(), d: BigInt::one() }
    }
    pub fn from_i64(v: i64) -> Self {
        Rat { n: BigInt::from_i64(v), d: BigInt::one() }
    }
    pub fn from_int(n: BigInt) -> Self {
        Rat { n, d: BigInt::one() }
    }
    /// exact value of a finite f64; None for NaN / infinities
    pub fn from_f64(x: f64) -> Option<Self> {
        if !x.is_finite() {
            return None;
        }
        if x == 0.0 {
            return Some(Rat::zero());
        }
        let bits = x.to_bits();
        let neg = (bits >> 63) != 0;
        let e = ((bits >> 52) & 0x7ff) as i64;
        let frac = bits & ((1u64 << 52) - 1);
        let (m, exp) = if e == 0 { (frac, -1074i64) } else { (frac | (1u64 << 52), e - 1075) };
        let mut n = BigInt::from_u64(m);
        n.neg = neg;
        Some(if exp >= 0 {
            Rat::new(n.shl(exp as usize), BigInt::one())
        } else {
            Rat::new(n, BigInt::pow2((-exp) as usize))
        })
    }
    /// coeff / 10^frac_digits
    pub fn from_decimal(coeff: i128, frac_digits: u32) -> Self {
        Rat::new(BigInt::from_i128(coeff), BigInt::pow10(frac_digits))
    }
    /// "a/b", "-a/b", "a", or a plain decimal literal "12.5", "1e-3", "2.5E+7"
    pub fn parse(s: &str) -> Option<Self> {
        let s = s.trim();
        if let Some((a, b)) = s.split_once('/') {
            let n = BigInt::parse(a.trim())?;
            let d = BigInt::parse(b.trim())?;
            if d.is_zero() {
                return None;
            }
            return Some(Rat::new(n, d));
        }
        let (mant, exp) = match s.find(|c| c == 'e' || c == 'E') {
            Some(i) => (&s[..i], s[i + 1..].parse::<i64>().ok()?),
            None => (s, 0),
        };
        let (neg, mant) = match mant.strip_prefix('-') {
            Some(r) => (true, r),
            None => (false, mant.strip_prefix('+').unwrap_or(mant)),
        };
        let (ip, fp) = match mant.split_once('.') {
            Some((i, f)) => (i, f),
            None => (mant, ""),
        };
        if ip.is_empty() && fp.is_empty() {
            return None;
        }
        let digits = format!("{}{}", ip, fp);
        let mut n = BigInt::parse(if digits.is_empty() { "0" } else { &digits })?;
        n.neg = neg && !n.is_zero();
        let e10 = exp - fp.len() as i64;
        Some(if e10 >= 0 {
            Rat::new(n.mul(&BigInt::pow10(e10 as u32)), BigInt::one())
        } else {
            Rat::new(n, BigInt::pow10((-e10) as u32))
        })
    }
    pub fn is_zero(&self) -> bool {
        self.n.is_zero()
    }
    pub fn signum(&self) -> i32 {
        self.n.signum()
    }
    pub fn is_neg(&self) -> bool {
        self.n.is_neg()
    }
    pub fn abs(&self) -> Self {
        Rat { n: self.n.abs(), d: self.d.clone() }
    }
    pub fn neg(&self) -> Self {
        Rat { n: self.n.neg(), d: self.d.clone() }
    }
    pub fn add(&self, o: &Self) -> Self {
        if self.d == o.d {
            return Rat::new(self.n.add(&o.n), self.d.clone());
        }
        Rat::new(self.n.mul(&o.d).add(&o.n.mul(&self.d)), self.d.mul(&o.d))
    }
    pub fn sub(&self, o: &Self) -> Self {
        self.add(&o.neg())
    }
    pub fn mul(&self, o: &Self) -> Self {
        Rat::new(self.n.mul(&o.n), self.d.mul(&o.d))
    }
    pub fn div(&self, o: &Self) -> Self {
        assert!(!o.n.is_zero(), "Rat division by zero");
        Rat::new(self.n.mul(&o.d), self.d.mul(&o.n))
    }
    pub fn recip(&self) -> Self {
        Rat::one().div(self)
    }
    pub fn cmp(&self, o: &Self) -> Ordering {
        let sa = self.signum();
        let sb = o.signum();
        if sa != sb {
            return sa.cmp(&sb);
        }
        if self.d == o.d {
            return self.n.cmp(&o.n);
        }
        self.n.mul(&o.d).cmp(&o.n.mul(&self.d))
    }
    pub fn eq(&self, o: &Self) -> bool {
        self.cmp(o) == Ordering::Equal
    }
    pub fn lt(&self, o: &Self) -> bool {
        self.cmp(o) == Ordering::Less
    }
    pub fn le(&self, o: &Self) -> bool {
        self.cmp(o) != Ordering::Greater
    }
    pub fn gt(&self, o: &Self) -> bool {
        self.cmp(o) == Ordering::Greater
    }
    pub fn ge(&self, o: &Self) -> bool {
        self.cmp(o) != Ordering::Less
    }
    /// floating approximation, relative error < 2^-50 (result may under/overflow to 0 / inf)
    pub fn to_f64(&self) -> f64 {
        if self.n.is_zero() {
            return 0.0;
        }
        let (nt, ns) = self.n.top64();
        let (dt, ds) = self.d.top64();
        let q = nt as f64 / dt as f64;
        let e = ns as i64 - ds as i64;
        let r = mul_pow2(q, e);
        if self.n.is_neg() {
            -r
        } else {
            r
        }
    }
    /// floor(self * 10^places) as a BigInt (exact)
    pub fn floor_scaled10(&self, places: u32) -> BigInt {
        let num = self.n.mul(&BigInt::pow10(places));
        let (q, r) = num.divrem(&self.d);
        if r.is_neg() {
            q.sub(&BigInt::one())
        } else {
            q
        }
    }
    /// nearest integer to self * 10^places, ties away from floor (only used to build alphabets)
    pub fn round_scaled10(&self, places: u32) -> BigInt {
        let two = Rat::from_i64(2);
        let shifted = self.add(&Rat::new(BigInt::one(), BigInt::pow10(places)).div(&two));
        shifted.floor_scaled10(places)
    }
    /// exact decimal expansion when the denominator divides a power of ten (<= max_places), else None
    pub fn to_decimal_string(&self, max_places: u32) -> Option<String> {
        for p in 0..=max_places {
            let num = self.n.mul(&BigInt::pow10(p));
            let (q, r) = num.divrem(&self.d);
            if r.is_zero() {
                let s = q.abs().to_string();
                let s = if p == 0 {
                    s
                } else {
                    let s = format!("{:0>width$}", s, width = p as usize + 1);
                    let (i, f) = s.split_at(s.len() - p as usize);
                    format!("{}.{}", i, f)
                };
                return Some(if q.is_neg() { format!("-{}", s) } else { s });
            }
        }
        None
    }
    pub fn to_ratio_string(&self) -> String {
        format!("{}/{}", self.n.to_string(), self.d.to_string())
    }
    /// short human-readable form for reports
    pub fn show(&self) -> String {
        match self.to_decimal_string(30) {
            Some(s) => s,
            None => format!("{:e}", self.to_f64()),
        }
    }
}

pub fn mul_pow2(mut x: f64, mut e: i64) -> f64 {
    while e > 1000 {
        x *= 2f64.powi(1000);
        e -= 1000;
        if x.is_infinite() {
            return x;
        }
    }
    while e < -1000 {
        x *= 2f64.powi(-1000);
        e += 1000;
        if x == 0.0 {
            return x;
        }
    }
    x * 2f64.powi(e as i32)
}
