//! Reference model for the quantities.rs explorers.  Does NOT depend on /repo.
pub mod bigint;
pub mod calc;
pub mod rat;
pub mod tables;

pub use bigint::BigInt;
pub use calc::{Backend, ErrVal};
pub use rat::Rat;
pub use tables::{Model, PrefixModel, TypeModel, UnitModel};
