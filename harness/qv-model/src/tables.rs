//! The resolved definition tables (build/model.json, written by lib/catalogue.py).

use crate::rat::Rat;
use serde_json::Value;
use std::collections::HashMap;

#[derive(Clone, Debug)]
pub struct PrefixModel {
    pub konst: String,
    pub name: String,
    pub abbr: String,
    pub exp: i8,
}

#[derive(Clone, Debug)]
pub struct UnitModel {
    pub id: String,
    pub variant: String,
    pub konst: String,
    pub name: String,
    pub sym: String,
    pub prefix: Option<String>,
    pub prefix_exp: Option<i8>,
    /// exact scale in reference units; None for types without reference unit
    pub scale: Option<Rat>,
    /// approximate scale, for grouping and reporting only
    pub scale_f: f64,
    /// definition is a rational number (false only for the parsec family)
    pub rational: bool,
    /// terminating decimal with <= 18 fractional digits: must be represented exactly
    pub terminating: bool,
    pub lit: Option<String>,
    pub decl: usize,
}

#[derive(Clone, Debug)]
pub struct TypeModel {
    pub universe: String,
    pub name: String,
    pub key: String,
    pub path: String,
    pub reff: Option<String>,
    pub ref_variant: Option<String>,
    pub si_ref: bool,
    pub derived: Option<(String, String, String)>,
    /// in expected iteration order
    pub units: Vec<UnitModel>,
}

impl TypeModel {
    pub fn unit_by_variant(&self, v: &str) -> Option<usize> {
        self.units.iter().position(|u| u.variant == v)
    }
    pub fn ref_index(&self) -> Option<usize> {
        let r = self.ref_variant.as_ref()?;
        self.unit_by_variant(r)
    }
    pub fn has_ref(&self) -> bool {
        self.reff.is_some()
    }
}

#[derive(Clone, Debug)]
pub struct Model {
    pub prefixes: Vec<PrefixModel>,
    pub types: Vec<TypeModel>,
    pub index: HashMap<String, usize>,
}

fn s(v: &Value) -> String {
    v.as_str().unwrap_or_else(|| panic!("string expected: {v}")).to_string()
}
fn os(v: &Value) -> Option<String> {
    v.as_str().map(|x| x.to_string())
}

impl Model {
    pub fn load(path: &str) -> Model {
        let text = std::fs::read_to_string(path).unwrap_or_else(|e| panic!("cannot read {path}: {e}"));
        let v: Value = serde_json::from_str(&text).expect("model.json is not valid JSON");
        let prefixes = v["prefixes"]
            .as_array()
            .unwrap()
            .iter()
            .map(|p| PrefixModel {
                konst: s(&p["const"]),
                name: s(&p["name"]),
                abbr: s(&p["abbr"]),
                exp: p["exp"].as_i64().unwrap() as i8,
            })
            .collect();
        let mut types = Vec::new();
        for t in v["types"].as_array().unwrap() {
            let units = t["units"]
                .as_array()
                .unwrap()
                .iter()
                .map(|u| {
                    let scale = u["scale"].as_str().map(|x| Rat::parse(x).expect("bad scale"));
                    UnitModel {
                        id: s(&u["id"]),
                        variant: s(&u["variant"]),
                        konst: s(&u["const"]),
                        name: s(&u["name"]),
                        sym: s(&u["sym"]),
                        prefix: os(&u["prefix"]),
                        prefix_exp: u["prefix_exp"].as_i64().map(|x| x as i8),
                        scale_f: scale.as_ref().map(|r| r.to_f64()).unwrap_or(f64::NAN),
                        scale,
                        rational: u["rational"].as_bool().unwrap_or(true),
                        terminating: u["terminating"].as_bool().unwrap_or(false),
                        lit: os(&u["lit"]),
                        decl: u["decl"].as_u64().unwrap_or(0) as usize,
                    }
                })
                .collect();
            let derived = t["derived"].as_array().map(|d| (s(&d[0]), s(&d[1]), s(&d[2])));
            types.push(TypeModel {
                universe: s(&t["universe"]),
                name: s(&t["name"]),
                key: s(&t["key"]),
                path: s(&t["path"]),
                reff: os(&t["ref"]),
                ref_variant: os(&t["ref_variant"]),
                si_ref: t["si_ref"].as_bool().unwrap_or(false),
                derived,
                units,
            });
        }
        let index = types.iter().enumerate().map(|(i, t)| (t.key.clone(), i)).collect();
        Model { prefixes, types, index }
    }
    pub fn get(&self, key: &str) -> &TypeModel {
        &self.types[*self.index.get(key).unwrap_or_else(|| panic!("type {key} not in model"))]
    }
}
