//! Rounding calculus (DESIGN.md 2.3, appendix A).
//!
//! An `ErrVal` is the exact value `v` a specification prescribes together with an upper bound `e`
//! on how far a faithful evaluation in the amount type may be away from it.  `v` is exact (`Rat`);
//! `e` is an `f64` that is only ever rounded *up* (every step is inflated by `INFL`), so a bound is
//! never too tight because of the arithmetic used to compute it.

use crate::rat::Rat;
use crate::tables::UnitModel;

#[derive(Clone, Copy, Debug, PartialEq, Eq)]
pub enum Backend {
    F64,
    Dec,
}

/// 2^-53
pub const U: f64 = 1.1102230246251565e-16;
/// half a unit in the 18th fractional digit
pub const HALF_Q: f64 = 0.5e-18;
/// relative representation error granted to scales whose definition is not a terminating decimal
pub const INEXACT_REL: f64 = 1e-15;
const INFL: f64 = 1.000001;
/// slack factor applied by `within`
pub const SLACK: f64 = 4.0;

#[derive(Clone, Debug)]
pub struct ErrVal {
    pub v: Rat,
    pub e: f64,
}

fn up(x: f64) -> f64 {
    x * INFL
}

impl ErrVal {
    pub fn exact(v: Rat) -> Self {
        ErrVal { v, e: 0.0 }
    }
    /// the scale of a unit as the amount type holds it
    pub fn scale(u: &UnitModel, be: Backend) -> Self {
        let v = u.scale.clone().expect("unit has no scale");
        let a = v.abs().to_f64();
        let e = if !u.terminating {
            up(a * INEXACT_REL)
        } else {
            match be {
                Backend::F64 => {
                    if Rat::from_f64(a).map(|r| r.eq(&v.abs())).unwrap_or(false) {
                        0.0
                    } else {
                        up(a * U)
                    }
                }
                Backend::Dec => 0.0,
            }
        };
        ErrVal { v, e }
    }
    fn round(mut self, be: Backend, muldiv: bool) -> Self {
        match be {
            Backend::F64 => {
                self.e = up(self.e + (self.v.abs().to_f64() + self.e) * U);
            }
            Backend::Dec => {
                if muldiv {
                    self.e = up(self.e + HALF_Q);
                }
            }
        }
        self
    }
    pub fn mul(&self, o: &ErrVal, be: Backend) -> ErrVal {
        let a = self.v.abs().to_f64();
        let b = o.v.abs().to_f64();
        let e = up(a * o.e + b * self.e + self.e * o.e);
        ErrVal { v: self.v.mul(&o.v), e }.round(be, true)
    }
    /// None when the divisor's enclosure contains zero
    pub fn div(&self, o: &ErrVal, be: Backend) -> Option<ErrVal> {
        let a = self.v.abs().to_f64();
        let b = o.v.abs().to_f64();
        if !(b > o.e * 2.0) || o.v.is_zero() {
            return None;
        }
        let e = up((a * o.e + b * self.e) / (b * (b - o.e)));
        Some(ErrVal { v: self.v.div(&o.v), e }.round(be, true))
    }
    pub fn add(&self, o: &ErrVal, be: Backend) -> ErrVal {
        // rounding of a sum is relative to the result, which is bounded by |a| + |b|: use that, so that
        // cancellation can never make the bound too small
        let m = self.v.abs().to_f64() + o.v.abs().to_f64() + self.e + o.e;
        let mut r = ErrVal { v: self.v.add(&o.v), e: up(self.e + o.e) };
        if be == Backend::F64 {
            r.e = up(r.e + m * U);
        }
        r
    }
    pub fn sub(&self, o: &ErrVal, be: Backend) -> ErrVal {
        self.add(&ErrVal { v: o.v.neg(), e: o.e }, be)
    }
    /// widen to cover another admissible evaluation order of the same specification
    pub fn widen(mut self, o: &ErrVal) -> ErrVal {
        if o.e > self.e {
            self.e = o.e;
        }
        self
    }
    pub fn tol(&self) -> f64 {
        up(self.e * SLACK)
    }
    /// is the observed exact value within SLACK x bound of the specified one?
    pub fn within(&self, observed: &Rat) -> bool {
        let diff = observed.sub(&self.v).abs();
        if diff.is_zero() {
            return true;
        }
        match Rat::from_f64(self.tol()) {
            Some(t) => diff.le(&t),
            None => true,
        }
    }
    /// relative tolerance (tol / |v|); infinite for v = 0
    pub fn rel_tol(&self) -> f64 {
        let a = self.v.abs().to_f64();
        if a == 0.0 {
            f64::INFINITY
        } else {
            self.tol() / a
        }
    }
}

/// amount' = a x S_u / S_v, bounded over the three evaluation orders of appendix A
pub fn convert_spec(a: &Rat, su: &UnitModel, sv: &UnitModel, be: Backend) -> Option<ErrVal> {
    convert_spec_ev(&ErrVal::exact(a.clone()), su, sv, be)
}

/// the same for an input that already carries an error bound (conversion chains)
pub fn convert_spec_ev(a: &ErrVal, su: &UnitModel, sv: &UnitModel, be: Backend) -> Option<ErrVal> {
    if su.variant == sv.variant {
        return Some(a.clone());
    }
    let lu = ErrVal::scale(su, be);
    let lv = ErrVal::scale(sv, be);
    // (S_u / S_v) * a
    let o1 = lu.div(&lv, be)?.mul(a, be);
    // (a * S_u) / S_v
    let o2 = a.mul(&lu, be).div(&lv, be)?;
    // (a / S_v) * S_u
    let o3 = a.div(&lv, be)?.mul(&lu, be);
    Some(o1.widen(&o2).widen(&o3))
}

/// The value band inside which f64 observations are value-checked (DESIGN.md section 3, narrowed so
/// that the product of two in-band numbers is still a finite f64).
pub const F64_BAND_LO: f64 = 1e-140;
pub const F64_BAND_HI: f64 = 1e140;

pub fn in_f64_band(r: &Rat) -> bool {
    if r.is_zero() {
        return true;
    }
    let a = r.abs().to_f64();
    a >= F64_BAND_LO && a <= F64_BAND_HI
}

/// Decimal precondition interval of C18: zero, or 1e-15 <= |x| <= 1e17
pub fn in_dec_range(r: &Rat) -> bool {
    if r.is_zero() {
        return true;
    }
    let a = r.abs();
    let lo = Rat::parse("1e-15").unwrap();
    let hi = Rat::parse("1e17").unwrap();
    a.ge(&lo) && a.le(&hi)
}
