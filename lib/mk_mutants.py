#!/usr/bin/env python3
"""(Re)create the deliberate property-breaking patches under /verif/mutants from the edit list below.
Each patch is produced by editing /repo's working tree, saving `git diff`, and reverting."""
import json
import os
import subprocess
import sys

REPO = "/repo"
OUT = os.path.join(os.path.dirname(os.path.dirname(os.path.abspath(__file__))), "mutants")

H = "qty-macros/src/quantity_attr_helper.rs"

# name -> (properties expected to report it, [(file, old, new)], description)
MUTANTS = {
    "C01-inch-scale-digit-swap": (["C01", "C07"], [("src/length.rs", '#[unit(Inch, "in", 0.0254, "2.54·cm")]', '#[unit(Inch, "in", 0.0245, "2.54·cm")]')],
                                  "Inch = 0.0245 m (two digits swapped)"),
    "C01-fpdec-only-inverted-ratio": (["C01"], [("src/lib.rs", "            self.unit().ratio(&unit) * self.amount()\n",
                                                 "            #[cfg(feature = \"fpdec\")]\n            let ratio = unit.ratio(&self.unit());\n            #[cfg(not(feature = \"fpdec\"))]\n            let ratio = self.unit().ratio(&unit);\n            ratio * self.amount()\n")],
                                      "equiv_amount takes the ratio the wrong way round in the Decimal build only"),
    "C03-add-zero-shortcut": (["C03"], [("src/lib.rs", "        Self::new(self.amount() + rhs.equiv_amount(self.unit()), self.unit())\n",
                                         "        if self.amount() == AMNT_ZERO {\n            return rhs;\n        }\n        Self::new(self.amount() + rhs.equiv_amount(self.unit()), self.unit())\n")],
                              "0 + b returns b in b's unit instead of the left operand's unit"),
    "C04-squared-fit-path-scale-twice": (["C04"], [(H, """                match Self::Output::unit_from_scale(scale) {
                    Some(unit) =>
                        Self::Output::new(self.amount() * rhs.amount(), unit),
                    None =>
                        <Self::Output as HasRefUnit>::_fit(
                            self.amount() * rhs.amount() * scale
                        )
                }
            }
        }
        impl<'a> Mul<#qty_ident> for &'a #qty_ident""", """                match Self::Output::unit_from_scale(scale) {
                    Some(unit) =>
                        Self::Output::new(self.amount() * rhs.amount(), unit),
                    None =>
                        <Self::Output as HasRefUnit>::_fit(
                            self.amount() * rhs.amount() * scale * scale
                        )
                }
            }
        }
        impl<'a> Mul<#qty_ident> for &'a #qty_ident""")], "squared quantities: the fit path multiplies by the scale twice"),
    "C04-liter-scale": (["C04", "C07", "C01"], [("src/volume.rs", '#[unit(Liter, "l", MILLI, 0.001, "0.001·m³")]', '#[unit(Liter, "l", MILLI, 0.01, "0.001·m³")]')], "Liter = 0.01 m3"),
    "C05-fit-strict-less": (["C05"], [("src/lib.rs", "u.scale() > first.scale() && u.scale() <= amount", "u.scale() > first.scale() && u.scale() < amount")],
                            "_fit: a magnitude exactly on a unit scale falls into the next smaller unit"),
    "C05-fit-si-filter-dropped": (["C05"], [("src/lib.rs", "let take_all = Self::REF_UNIT.si_prefix().is_none();", "let take_all = true;")],
                                  "_fit considers all units even if the reference unit is SI-prefixed"),
    "C07-mebibit-digits": (["C07"], [("src/datavolume.rs", '#[unit(Mebibit, "Mib", 131072, "1048576·b")]', '#[unit(Mebibit, "Mib", 131027, "1048576·b")]')], "Mebibit = 131027 B"),
    "C07-are-prefix": (["C07"], [("src/area.rs", '#[unit(Are, "a", HECTO, 100, "100·m²")]', '#[unit(Are, "a", DECA, 100, "100·m²")]')], "Are reports prefix DECA"),
    "C07-long-literals-clamped-to-18-digits": (["C07"], [(H, """            let unit_scale: &syn::Lit = unit.scale.as_ref().unwrap();
            // `Amnt!` casts""", """            let unit_scale: &syn::Lit = &clamp_scale_lit(unit.scale.as_ref().unwrap());
            // `Amnt!` casts"""), (H, """fn codegen_fn_scale(units: &Vec<UnitDef>) -> TokenStream {""", """/// `Dec!` accepts at most 18 fractional digits: shorten longer float literals.
fn clamp_scale_lit(lit: &syn::Lit) -> syn::Lit {
    if let syn::Lit::Float(f) = lit {
        let digits = f.base10_digits().to_lowercase();
        let (mant, exp) = match digits.split_once('e') {
            Some((m, e)) => (m.to_owned(), e.parse::<i32>().unwrap_or(0)),
            None => (digits.clone(), 0),
        };
        let n_frac = mant.split_once('.').map(|(_, fr)| fr.len() as i32).unwrap_or(0) - exp;
        if n_frac > 18 {
            let v: f64 = f.base10_parse().unwrap();
            return syn::Lit::Float(syn::LitFloat::new(&format!("{:.18}", v), f.span()));
        }
    }
    lit.clone()
}

fn codegen_fn_scale(units: &Vec<UnitDef>) -> TokenStream {""")],
                                               "recreation of a sub-agent's round-2 seed whose files were lost: scale literals with more than 18 fractional digits are re-emitted with 18 (a 'fix' for building the astronomical crate with fpdec) - eight astronomical scales lose up to 4e-11 relative under f64"),
    "C08-one-times-amount": (["C08"], [("src/lib.rs", "    fn mul(self, rhs: AmountT) -> Self::Output {\n        rhs\n    }", "    fn mul(self, rhs: AmountT) -> Self::Output {\n        if rhs == AMNT_ZERO {\n            return AMNT_ZERO;\n        }\n        rhs\n    }")],
                             "ONE * amount normalises negative zero to zero"),
    "CONTROL-scalar-mul-commuted": ([], [(H, "                Self::Output::new(self * rhs.amount(), rhs.unit())", "                Self::Output::new(rhs.amount() * self, rhs.unit())")],
                                         "CONTROL (must NOT be reported by C08): k * q computes amount * k instead of k * amount - the statement speaks of the product of amount and number without fixing an operand order (under Decimal the two orders differ in digit count for 1.0 * 1)"),
    "C09-from-symbol-case-insensitive": (["C09"], [("src/lib.rs", "        Self::iter().find(|&unit| unit.symbol() == symbol)", "        Self::iter().find(|&unit| unit.symbol().eq_ignore_ascii_case(symbol))")],
                                         "Unit::from_symbol ignores ASCII case"),
    "C10-eq-or-instead-of-and": (["C10"], [("src/lib.rs", "        self.unit() == other.unit() && self.amount() == other.amount()", "        self.unit() == other.unit() || self.amount() == other.amount()")],
                                 "Quantity::eq (no reference unit): equal amounts in different units compare equal"),
    "C11-names-keep-underscores": (["C11", "C07"], [(H, "unit_ident.to_string().replace('_', \" \").as_str(),", "unit_ident.to_string().as_str(),")], "unit names keep their underscores"),
    "C11-ties-in-reverse-declaration-order": (["C11", "C09"], [(H, "        qty_def.units.insert(0, ref_unit_def);\n        qty_def.units.sort_by(|a, b| {", "        qty_def.units.insert(0, ref_unit_def);\n        qty_def.units.reverse();\n        qty_def.units.sort_by(|a, b| {")],
                                              "equal-scale units are ordered in reverse declaration order (and the reference unit last among scale-one units)"),
    "CONTROL-sort-comparator-greater-on-ties": ([], [(H, "            x.partial_cmp(&y).unwrap()\n        });", "            x.partial_cmp(&y).unwrap().then(core::cmp::Ordering::Greater)\n        });")],
                                                "CONTROL (equivalent: a stable sort never moves an element for a non-Less comparison; must NOT be reported by C09/C11)"),
    "C13-div-rate-multiple-one-shortcut": (["C13"], [(H, """                let amnt: AmountT =
                    (self / rhs.term_unit().as_qty()) / rhs.term_amount();
                Self::Output::new(""", """                if rhs.per_unit_multiple() == Amnt!(1) {
                    return Self::Output::new(self.amount() / rhs.term_amount(), rhs.per_unit());
                }
                let amnt: AmountT =
                    (self / rhs.term_unit().as_qty()) / rhs.term_amount();
                Self::Output::new(""")], "q / rate with per-multiple one skips the conversion of q into the term unit"),
    "C13-rate-mul-skips-conversion-for-si-units": (["C13"], [("src/rate.rs", "        let amnt: AmountT =\n            (rhs / self.per_unit().as_qty()) / self.per_unit_multiple();",
                                                               "        let amnt: AmountT = if rhs.unit().si_prefix().is_some() && self.per_unit().si_prefix().is_some() {\n            rhs.amount() / self.per_unit_multiple()\n        } else {\n            (rhs / self.per_unit().as_qty()) / self.per_unit_multiple()\n        };")],
                                                   "rate * q skips the unit conversion when both units carry an SI prefix"),
    "C14-match-on-from-only": (["C14"], [("src/converter.rs", "(*from == (*qty).unit() && *to == to_unit)", "(*from == (*qty).unit())")], "ConversionTable::convert matches rows on the source unit only"),
    "C14-fahrenheit-celsius-offset": (["C14"], [("src/temperature.rs", "Amnt!(-17.777777777777777778)", "Amnt!(-17.78)")], "Fahrenheit -> Celsius offset rounded to -17.78"),
    "C15-unit-fmt-ignores-format": (["C15"], [("src/lib.rs", "        fmt::Display::fmt(&self.symbol(), form)\n", "        form.write_str(&self.symbol())\n")], "units ignore width / alignment / precision"),
    "C15-rate-shows-multiple-one": (["C15"], [("src/rate.rs", "} else if self.per_unit_multiple() == AMNT_ONE {", "} else if self.per_unit_multiple() == AMNT_ONE && self.term_unit().symbol() != \"\" {")],
                                    "a rate with dimensionless term shows its per-multiple of one"),
    "C16-from-abbr-z-swapped": (["C16"], [("src/si_prefixes.rs", '            "z" => Some(Self::ZEPTO),', '            "Z" => Some(Self::ZEPTO),'), ("src/si_prefixes.rs", '            "Z" => Some(Self::ZETTA),', '            "z" => Some(Self::ZETTA),')],
                                "from_abbr: z and Z swapped"),
    "C16-from-exp-extra-arm": (["C16"], [("src/si_prefixes.rs", "            -2 => Some(Self::CENTI),", "            -2 | -4 => Some(Self::CENTI),")], "from_exp(-4) returns CENTI"),
    "C17-unit-enum-renamed-lowercase": (["C17"], [(H, """        #[cfg_attr(feature = "serde", derive(::serde::Deserialize, ::serde::Serialize))]
        pub enum #unit_enum_ident {
            #code_unit_variants
        }""", """        #[cfg_attr(feature = "serde", derive(::serde::Deserialize, ::serde::Serialize))]
        #[cfg_attr(feature = "serde", serde(rename_all = "lowercase"))]
        pub enum #unit_enum_ident {
            #code_unit_variants
        }""")], "units with reference unit serialise in lower case"),
    "C18-squared-mul-unwraps": (["C18", "C05", "C04"], [(H, """                match Self::Output::unit_from_scale(scale) {
                    Some(unit) =>
                        Self::Output::new(self.amount() * rhs.amount(), unit),
                    None =>
                        <Self::Output as HasRefUnit>::_fit(
                            self.amount() * rhs.amount() * scale
                        )
                }
            }
        }
        impl<'a> Mul<#qty_ident> for &'a #qty_ident""", """                let unit = Self::Output::unit_from_scale(scale).unwrap();
                Self::Output::new(self.amount() * rhs.amount(), unit)
            }
        }
        impl<'a> Mul<#qty_ident> for &'a #qty_ident""")], "squared quantities panic when no natural unit exists"),
    "CONTROL-equiv-amount-via-reference-unit": ([], [("src/lib.rs", "            self.unit().ratio(&unit) * self.amount()\n", "            self.amount() * self.unit().scale() / unit.scale()\n")],
                                                "CONTROL for C01/C03/C13/C18 (must NOT be reported there): equiv_amount goes through the reference unit (amount * scale / scale) instead of multiplying by the pre-divided ratio. NOT a control for C02: between equal-scale units (ml / cm3) the two operand orders then convert different operands and 0 cm3 vs 5e-324 ml becomes order dependent, which C02 rightly reports"),
    "CONTROL-add-commuted": ([], [("src/lib.rs", "        Self::new(self.amount() + rhs.equiv_amount(self.unit()), self.unit())\n", "        Self::new(rhs.equiv_amount(self.unit()) + self.amount(), self.unit())\n")],
                             "CONTROL (must NOT be reported): a + b computed as conv(b) + a"),
    "CONTROL-table-uses-fused-multiply-add": ([], [("src/converter.rs", "                .then(|| Q::new(qty.amount() * factor + offset, to_unit))", "                .then(|| {\n                    #[cfg(not(feature = \"fpdec\"))]\n                    let amnt = qty.amount().mul_add(*factor, *offset);\n                    #[cfg(feature = \"fpdec\")]\n                    let amnt = qty.amount() * factor + offset;\n                    Q::new(amnt, to_unit)\n                })")],
                                              "CONTROL (must NOT be reported): table conversion uses a fused multiply-add under f64"),
    "CONTROL-derived-mul-via-reference-magnitudes": ([], [(H, """                        <Self::Output as HasRefUnit>::_fit(
                            self.amount() * rhs.amount() * scale
                        )
                }
            }
        }
        impl<'a> Mul<#rhs_qty_ident> for &'a #lhs_qty_ident""", """                        <Self::Output as HasRefUnit>::_fit(
                            (self.amount() * self.unit().scale()) * (rhs.amount() * rhs.unit().scale())
                        )
                }
            }
        }
        impl<'a> Mul<#rhs_qty_ident> for &'a #lhs_qty_ident""")],
                                                     "CONTROL (must NOT be reported): A * B on the fit path multiplies the two reference-unit magnitudes instead of amount product times scale product"),
    "CONTROL-fit-fallback-rewritten": ([], [("src/lib.rs", "            None => Self::new(amount / first.scale(), first),", "            None => Self::new(amount / last.map(|u| u.scale()).unwrap_or(first.scale()), first),")],
                                               "CONTROL (equivalent rewrite of the _fit fall-back, must NOT be reported by C04/C05/C18)"),
}


HAND = {
    "C02-revert-fix": {"properties": ["C02"], "description": "the original comparison code (reverse of fix dc861d3): cross-unit ==/partial_cmp depend on operand order"},
    "C15-revert-negative-zero-fix": {"properties": ["C15"], "description": "reverse of fix fe11080: negative zero displayed with a double sign"},
    "C15-revert-char-padding-fix": {"properties": ["C15"], "description": "reverse of fix 657d288: width applied in bytes"},
    "C09-ref-unit-not-first-among-ties": {"properties": ["C09", "C11"], "description": "the reference unit is placed last instead of first among units of scale one"},
    "C12-prefix-check-dropped": {"properties": ["C12"], "description": "a prefix on a unit of a quantity without reference unit is silently accepted"},
    "C19-speed-feature-misses-duration": {"properties": ["C19"], "description": "Cargo.toml: speed = [\"length\"]"},
    "C19-frequency-needs-std": {"properties": ["C19"], "description": "the frequency module is only compiled with std"},
    "C06-power-derivation": {"properties": ["C06"], "description": "Power declared as Energy * Duration"},
}


def run(cmd, **kw):
    return subprocess.run(cmd, stdout=subprocess.PIPE, stderr=subprocess.STDOUT, text=True, **kw)


def main():
    os.makedirs(OUT, exist_ok=True)
    assert run(["git", "-C", REPO, "status", "--porcelain"]).stdout.strip() == "", "/repo working tree is not clean"
    index = {}
    for name, (props, edits, desc) in MUTANTS.items():
        ok = True
        for path, old, new in edits:
            full = os.path.join(REPO, path)
            with open(full, encoding="utf-8") as f:
                s = f.read()
            if s.count(old) != 1:
                print("SKIP %s: anchor occurs %d times in %s" % (name, s.count(old), path))
                ok = False
                break
            with open(full, "w", encoding="utf-8") as f:
                f.write(s.replace(old, new))
        if ok:
            diff = run(["git", "-C", REPO, "diff"]).stdout
            with open(os.path.join(OUT, name + ".diff"), "w", encoding="utf-8") as f:
                f.write(diff)
            index[name] = {"properties": props, "description": desc}
        run(["git", "-C", REPO, "checkout", "--", "."])
    # patches recorded by hand (reverse patches of the fix: commits and others)
    index.update(HAND)
    index["CONTROL-scalar-mul-commuted"]["control_for"] = ["C08"]
    index["CONTROL-fit-fallback-rewritten"]["control_for"] = ["C04", "C05", "C18"]
    index["CONTROL-equiv-amount-via-reference-unit"]["control_for"] = ["C01", "C03", "C13", "C18"]
    index["CONTROL-add-commuted"]["control_for"] = ["C03"]
    index["CONTROL-table-uses-fused-multiply-add"]["control_for"] = ["C14"]
    index["CONTROL-derived-mul-via-reference-magnitudes"]["control_for"] = ["C04", "C05", "C18"]
    index["CONTROL-sort-comparator-greater-on-ties"]["control_for"] = ["C09", "C11"]
    path = os.path.join(OUT, "index.json")
    old = {}
    if os.path.exists(path):
        with open(path, encoding="utf-8") as f:
            old = json.load(f)
    for k, v in old.items():
        if k not in index and os.path.exists(os.path.join(OUT, k + ".diff")):
            index[k] = v
    with open(path, "w", encoding="utf-8") as f:
        json.dump(index, f, ensure_ascii=False, indent=1, sort_keys=True)
    print("%d mutants written" % len(index))


if __name__ == "__main__":
    sys.exit(main())
