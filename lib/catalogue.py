"""Definition tables -> resolved model (exact fractions) and generated harness sources.

The model side of every engine.  Nothing here reads /repo.
"""
import json
import os
import re
from fractions import Fraction

VERIF = os.path.dirname(os.path.dirname(os.path.abspath(__file__)))
DATA = os.path.join(VERIF, "data")
GEN_DIR = os.path.join(VERIF, "harness", "qv-drive", "src", "gen")

# 60 digits of pi; only used through a rational enclosure for the single irrational definition
PI = Fraction("3.14159265358979323846264338327950288419716939937510582097494")


# ---------------------------------------------------------------------------
# identifier casing (model of the documented convention: words separated by '_' or by a
# lower->upper transition; digits stick to the preceding word when followed by nothing)
def split_words(ident):
    words = []
    for part in re.split(r"[_\- ]+", ident):
        if not part:
            continue
        # lower->upper boundary, acronym boundary (ABCd -> AB Cd), letter<->digit boundaries
        words += re.findall(r"[A-Z]+(?![a-z])|[A-Z]?[a-z]+|[0-9]+", part) or [part]
    return words


def upper_camel(ident):
    return "".join(w[:1].upper() + w[1:].lower() for w in split_words(ident))


def upper_snake(ident):
    return "_".join(w.upper() for w in split_words(ident))


def unit_name(ident):
    return ident.replace("_", " ")


# ---------------------------------------------------------------------------
def parse_number(tok):
    if tok == "pi":
        return PI, False
    return Fraction(tok), True


def lit_value(lit):
    """Exact value of a Rust numeric literal as used for scales (int, float, exponent form)."""
    s = lit.replace("_", "")
    if s.endswith("."):
        s += "0"
    return Fraction(s)


def terminating(fr, max_places=18):
    """(is terminating decimal with <= max_places fractional digits, number of places)"""
    d = fr.denominator
    places = 0
    while d % 10 == 0:
        d //= 10
        places += 1
    n2 = n5 = 0
    while d % 2 == 0:
        d //= 2
        n2 += 1
    while d % 5 == 0:
        d //= 5
        n5 += 1
    if d != 1:
        return False, None
    places += max(n2, n5)
    return places <= max_places, places


def load_catalogue():
    with open(os.path.join(DATA, "catalogue.json"), encoding="utf-8") as f:
        return json.load(f)


def load_syn():
    with open(os.path.join(DATA, "syn.json"), encoding="utf-8") as f:
        return json.load(f)


def prefix_table(cat):
    return {p[0]: {"const": p[0], "name": p[1], "abbr": p[2], "exp": p[3]} for p in cat["si_prefixes"]}


def resolve_universe(uni):
    """Chain every unit definition down to its reference unit.  Returns {type: {unit id: (Fraction, rational?)}}"""
    types = {t["name"]: t for t in uni["types"]}
    memo = {}

    def unit_scale(tname, uid, stack=()):
        key = (tname, uid)
        if key in memo:
            return memo[key]
        if key in stack:
            raise ValueError("cyclic definition %s.%s" % key)
        t = types[tname]
        u = next(x for x in t["units"] if x["id"] == uid)
        if u["def"] is None:
            memo[key] = (None, True)
            return memo[key]
        toks = u["def"].split(" ")
        val, rational = None, True
        op = "*"
        for tok in toks:
            if tok in ("*", "/"):
                op = tok
                continue
            if re.match(r"^[0-9.]+(/[0-9]+)?$", tok) or tok == "pi":
                v, r = parse_number(tok)
            elif "." in tok:
                tn, un = tok.split(".")
                v, r = unit_scale(tn, un, stack + (key,))
            else:
                v, r = unit_scale(tname, tok, stack + (key,))
            rational = rational and r
            if val is None:
                val = v if op == "*" else 1 / v
            else:
                val = val * v if op == "*" else val / v
        memo[key] = (val, rational)
        return memo[key]

    out = {}
    for t in uni["types"]:
        out[t["name"]] = {u["id"]: unit_scale(t["name"], u["id"]) for u in t["units"]}
        if t["ref"] is not None:
            ref_scale = out[t["name"]][t["ref"]][0]
            if ref_scale != 1:
                raise ValueError("reference unit of %s does not chain to 1: %s" % (t["name"], ref_scale))
    return out


def expected_order(units, ref_id):
    """Iteration order stated by C09: with reference unit: stable sort by scale, the reference unit placed
    first among units of scale one, declaration order breaking other ties; without: byte-wise name order."""
    if ref_id is None:
        return sorted(units, key=lambda u: u["name"].encode("utf-8"))
    ref = [u for u in units if u["id"] == ref_id]
    rest = [u for u in units if u["id"] != ref_id]
    return sorted(ref + rest, key=lambda u: u["scale_fr"])  # sorted() is stable


def mk_unit(uid, sym, prefix, scale_fr, rational, prefixes, lit=None, doc=None):
    term, places = (False, None)
    if scale_fr is not None and rational:
        term, places = terminating(scale_fr)
    return {
        "id": uid,
        "variant": upper_camel(uid),
        "const": upper_snake(upper_camel(uid)),
        "name": unit_name(uid),
        "sym": sym,
        "prefix": prefix,
        "prefix_exp": (prefixes[prefix]["exp"] if prefix else None),
        "scale_fr": scale_fr,
        "scale": (None if scale_fr is None else "%d/%d" % (scale_fr.numerator, scale_fr.denominator)),
        "rational": rational,
        "terminating": bool(term),
        "places": places,
        "lit": lit,
        "doc": doc,
    }


def build_model():
    """The complete model: catalogue universes 'main', 'astro' and the synthetic universe 'syn'."""
    cat = load_catalogue()
    prefixes = prefix_table(cat)
    model = {"prefixes": [prefixes[p[0]] for p in cat["si_prefixes"]], "types": []}
    for uname, uni in cat["universes"].items():
        scales = resolve_universe(uni)
        for t in uni["types"]:
            units = []
            for i, u in enumerate(t["units"]):
                fr, rational = scales[t["name"]][u["id"]]
                mu = mk_unit(u["id"], u["sym"], u["prefix"], fr, rational, prefixes)
                mu["decl"] = i
                units.append(mu)
            units = expected_order(units, t["ref"])
            mod = t["module"]
            path = uni["crate"] + ("::" + mod if mod else "")
            model["types"].append({
                "universe": uname, "name": t["name"], "key": "%s.%s" % (uname, t["name"]),
                "path": path, "feature": t["feature"], "ref": t["ref"],
                "ref_variant": (upper_camel(t["ref"]) if t["ref"] else None),
                "si_ref": bool(t["ref"] and next(u for u in units if u["id"] == t["ref"])["prefix"]),
                "derived": t["derived"], "units": units,
            })
    syn = load_syn()
    for t in syn["types"]:
        units = []
        decl = syn_decl_order(t)
        for i, u in enumerate(decl):
            is_ref = t["ref"] is not None and u is t["ref"]
            if t["ref"] is None:
                fr = None
            elif is_ref:
                fr = Fraction(1)
            else:
                fr = lit_value(u["lit"])
            mu = mk_unit(u["id"], u["sym"], u["prefix"], fr, True, prefixes, lit=u.get("lit"), doc=u.get("doc"))
            mu["decl"] = i
            units.append(mu)
        ref_id = t["ref"]["id"] if t["ref"] else None
        units = expected_order(units, ref_id)
        model["types"].append({
            "universe": "syn", "name": t["name"], "key": "syn.%s" % t["name"],
            "path": "crate::gen::syn::%s" % t["name"].lower(), "feature": None, "ref": ref_id,
            "ref_variant": (upper_camel(ref_id) if ref_id else None),
            "si_ref": bool(t["ref"] and t["ref"]["prefix"]),
            "derived": t["derived"], "units": units, "f64_only": bool(t.get("f64_only")), "only": t.get("only"),
        })
    # the dimensionless amount
    one = mk_unit("One", "", None, Fraction(1), True, prefixes)
    one["decl"] = 0
    model["types"].append({"universe": "amt", "name": "AmountT", "key": "amt.AmountT", "path": "quantities",
                           "feature": None, "ref": "One", "ref_variant": "One", "si_ref": False, "derived": None,
                           "units": [one]})
    return model


def syn_decl_order(t):
    """Attribute order in the generated source: the units as listed, with #[ref_unit] at position ref_pos."""
    decl = list(t["units"])
    if t["ref"] is not None:
        decl.insert(t["ref_pos"], t["ref"])
    return decl


def model_json(model):
    def strip(u):
        return {k: v for k, v in u.items() if k != "scale_fr"}
    out = {"prefixes": model["prefixes"], "types": []}
    for t in model["types"]:
        tt = dict(t)
        tt["units"] = [strip(u) for u in t["units"]]
        out["types"].append(tt)
    return out


# ---------------------------------------------------------------------------
# operator instances implied by the declared derivations (the statement of C04 / C06)
def operator_instances(model, universes):
    """[(lhs key, op, rhs key, result key)] for every derivation R = A op B of the given universes."""
    by_name = {}
    for t in model["types"]:
        by_name[(t["universe"], t["name"])] = t["key"]
    out = []
    for t in model["types"]:
        if t["universe"] not in universes or not t["derived"]:
            continue
        a, op, b = t["derived"]

        def key(n, uni=t["universe"]):
            return "amt.AmountT" if n == "AmountT" else by_name[(uni, n)]
        A, B, R = key(a), key(b), t["key"]
        if op == "*":
            if A == B:
                out += [(A, "*", A, R), (R, "/", A, A)]
            else:
                out += [(A, "*", B, R), (B, "*", A, R), (R, "/", B, A), (R, "/", A, B)]
        else:
            out += [(A, "/", B, R), (R, "*", B, A), (B, "*", R, A), (A, "/", R, B)]
    return out


# ---------------------------------------------------------------------------
# generated harness sources
def rust_str(s):
    return json.dumps(s, ensure_ascii=False)


def gen_syn_rs(syn):
    out = ["// GENERATED by lib/catalogue.py from data/syn.json -- do not edit.",
           "#![allow(dead_code, missing_docs, unused_imports)]", ""]
    for t in syn["types"]:
        if t.get("f64_only"):
            out.append("#[cfg(not(feature = \"dec\"))]")
        out.append("pub mod %s {" % t["name"].lower())
        out.append("    use quantities::prelude::*;")
        if t["derived"]:
            for n in sorted({t["derived"][0], t["derived"][2]}):
                if n != "AmountT":
                    out.append("    use super::%s::%s;" % (n.lower(), n))
            out.append("    #[quantity(%s %s %s)]" % tuple(t["derived"]))
        else:
            out.append("    #[quantity]")
        for u in syn_decl_order(t):
            is_ref = t["ref"] is not None and u is t["ref"]
            args = [u["id"], rust_str(u["sym"])]
            if u["prefix"]:
                args.append(u["prefix"])
            if not is_ref and u.get("lit") is not None:
                args.append(u["lit"])
            if u.get("doc"):
                args.append(rust_str(u["doc"]))
            out.append("    #[%s(%s)]" % ("ref_unit" if is_ref else "unit", ", ".join(args)))
        out.append("    pub struct %s {}" % t["name"])
        out.append("}")
        out.append("")
    return "\n".join(out)


def rust_type(t):
    if t["key"] == "amt.AmountT":
        return "quantities::AmountT"
    return "%s::%s" % (t["path"], t["name"])


def gen_registry_rs(model):
    """Macros that instantiate the generic explorers for every type / operator instance of the model."""
    out = ["// GENERATED by lib/catalogue.py from data/catalogue.json and data/syn.json -- do not edit.", ""]
    by_key = {t["key"]: t for t in model["types"]}

    def group(name, pred, arms):
        out.append("#[macro_export]")
        out.append("macro_rules! %s {" % name)
        out.append("    ($f:ident $(, $arg:expr)*) => {")
        for t in model["types"]:
            if pred(t) and (t.get("only") is None or name == "for_each_%s_extra_type" % t["only"].lower()):
                cfg = "#[cfg(feature = \"astro\")] " if t["universe"] == "astro" else ""
                if t.get("f64_only"):
                    cfg = "#[cfg(not(feature = \"dec\"))] "
                out.append("        %s$f::<%s>(%s $(, $arg)*);" % (cfg, rust_type(t), rust_str(t["key"])))
        out.append("    };")
        out.append("}")
        out.append("")

    group("for_each_ref_type", lambda t: t["ref"] is not None and len(t["units"]) >= 1, None)
    group("for_each_noref_type", lambda t: t["ref"] is None and len(t["units"]) > 1, None)
    group("for_each_single_type", lambda t: t["ref"] is None and len(t["units"]) == 1, None)
    group("for_each_type", lambda t: True, None)
    group("for_each_main_type", lambda t: t["universe"] == "main", None)
    group("for_each_serde_type", lambda t: t["universe"] in ("main", "syn"), None)
    # types that take part in one check only (data/syn.json: "only")
    group("for_each_c08_extra_type", lambda t: t.get("only") == "C08", None)
    # operator instances
    insts = operator_instances(model, ("main", "astro", "syn"))
    out.append("#[macro_export]")
    out.append("macro_rules! for_each_operator {")
    out.append("    ($fmul:ident, $fdiv:ident $(, $arg:expr)*) => {")
    for (a, op, b, r) in insts:
        ta, tb, tr = by_key[a], by_key[b], by_key[r]
        cfg = "#[cfg(feature = \"astro\")] " if "astro" in (ta["universe"], tb["universe"], tr["universe"]) else ""
        if ta.get("f64_only") or tb.get("f64_only") or tr.get("f64_only"):
            cfg = "#[cfg(not(feature = \"dec\"))] "
        f = "$fmul" if op == "*" else "$fdiv"
        out.append("        %s%s::<%s, %s, %s>(%s, %s, %s $(, $arg)*);" % (
            cfg, f, rust_type(ta), rust_type(tb), rust_type(tr), rust_str(a), rust_str(b), rust_str(r)))
    out.append("    };")
    out.append("}")
    out.append("")
    return "\n".join(out)


def write_if_changed(path, text):
    os.makedirs(os.path.dirname(path), exist_ok=True)
    try:
        with open(path, encoding="utf-8") as f:
            if f.read() == text:
                return False
    except FileNotFoundError:
        pass
    with open(path, "w", encoding="utf-8") as f:
        f.write(text)
    return True


def generate(build_dir):
    """Write build/model.json and the generated harness sources.  Returns the model."""
    model = build_model()
    os.makedirs(build_dir, exist_ok=True)
    write_if_changed(os.path.join(build_dir, "model.json"),
                     json.dumps(model_json(model), ensure_ascii=False, indent=1))
    write_if_changed(os.path.join(GEN_DIR, "syn.rs"), gen_syn_rs(load_syn()))
    write_if_changed(os.path.join(GEN_DIR, "registry.rs"), gen_registry_rs(model))
    write_if_changed(os.path.join(GEN_DIR, "mod.rs"),
                     "// GENERATED by lib/catalogue.py -- do not edit.\npub mod registry;\npub mod syn;\n")
    return model


if __name__ == "__main__":
    m = generate(os.path.join(VERIF, "build"))
    n_units = sum(len(t["units"]) for t in m["types"])
    print("types=%d units=%d operator_instances=%d" % (
        len(m["types"]), n_units, len(operator_instances(m, ("main", "astro", "syn")))))
    for t in m["types"]:
        print(t["key"], [(u["variant"], u["scale"]) for u in t["units"]][:4])
