"""Property table: which engine decides which property, with its bounds and vacuity floors."""
import json
import os
import subprocess
import sys
import time

import catalogue
import common
import e1
import e2
import c17_ap
import e2_c06
import e2_c09
import e2_c11
import e2_c12
import e3
import selftest
from common import BUILD, Machinery


def _e1(cfg):
    return lambda prop, tier, seed, t0: e1.run(prop, tier, seed, cfg, t0)


V_DESC = ("V = value alphabet (quick ~26 / thorough ~190 amounts per back-end: 0, +-1, small integers, awkward "
          "decimals, decades, representation edges); B = for every other unit the amounts that denote the same "
          "magnitude there, with their representable neighbours; S = every IEEE class (f64)")

PROPS = {}

PROPS["C01"] = _e1({
    "rule": {
        "quick": "breadth-first closure, depth 2, of convert()/equiv_amount() over all types with reference unit "
                 "(catalogue, AmountT, synthetic, astronomical) x all ordered unit pairs from seeds V u B u S; every "
                 "transition judged against the exact-rational model; all depth-2 paths from all seeds judged for "
                 "round trip and chained-vs-direct agreement. " + V_DESC +
                 ". states = distinct (type, unit, amount bits) per exploration block; non-trivial = cross-unit "
                 "depth-0 transitions between units of different scale whose acceptance bound is <= 1e-7 relative",
        "thorough": "as quick with depth 3 from the quick seeds, and the additional ~170 values of the thorough alphabet closed to depth 2",
    },
    "floors": {"quick": {"types": 20, "units": 150, "transitions": 500000, "sensitive": 50000, "round_trips": 50000,
                         "identity_cases": 10000}},
})

PROPS["C02"] = _e1({
    "rule": "product states (a in u, b in v) for all types with reference unit x all ordered unit pairs x a in V u S "
            "x b in V u S u {same-magnitude partner of a in v and its two neighbours}; on every state ==, !=, <, <=, >, "
            ">= and partial_cmp are evaluated in BOTH operand orders (14 transitions) and judged for order "
            "independence (all non-NaN amounts), for agreement with the exact order of magnitudes whenever these differ "
            "by more than one conversion error, and for identity with the amount type's comparison when units are equal. "
            + V_DESC + ". non-trivial = cross-unit states that are equal by construction or decided by the exact order",
    "floors": {"quick": {"types": 20, "states": 500000, "equal_by_construction": 5000, "decided": 200000,
                         "same_unit_cases": 50000, "order_independence_checked": 400000}},
})

PROPS["C03"] = _e1({
    "rule": "all types with reference unit x all ordered unit pairs x left amounts V u S x right amounts V u S u "
            "{the amount equal to / cancelling the left one in the other unit, with neighbours}; a+b, a-b, a/b on "
            "every state; sums are fed back as left operands (depth 2; feedback set: a in {1, 17.4} (quick) / small "
            "alphabet (thorough), b in {1, 0.37}, every unit). Cross-unit results judged against the exact-rational "
            "model (bound absolute in |a|+|b'|, so cancellation cannot false-alarm); same-unit results bit-identical "
            "to the amount type's own operation. " + V_DESC,
    "floors": {"quick": {"types": 20, "transitions": 3000000, "sensitive": 1000000, "same_unit_cases": 300000,
                         "value_checked": 2000000}},
})

PROPS["C08"] = _e1({
    "rule": "all quantity types (with reference unit, without, single-unit, dimensionless, synthetic, astronomical) x "
            "all units x amounts a in V u S u R x scalars k in V u S u R: new(a,u), a*u, u*a, accessors, k*q, q*k, q/k; "
            "every result bit-identical to the amount type's own k*a, a*k, a/k evaluated by the harness (NaN compared as "
            "NaN), unit unchanged; the subject must panic exactly where the amount operation itself panics (Decimal "
            "overflow / division by zero). " + V_DESC + "; R = Decimal range edges",
    "floors": {"quick": {"types": 25, "units": 160, "transitions": 500000, "dimensionless_clause": 1}},
})

PROPS["C10"] = _e1({
    "profiles": ["dev", "rel"],
    "rule": "[each back-end in two builds: dev profile, and the same without debug assertions / overflow checks] " "all types without reference unit (Temperature, SynNoRef; single-unit SynSingle) x all ordered unit pairs x "
            "(a, b) in (V u S)^2 including a = b: ==, !=, partial_cmp, <, +, -, /; equality iff same unit and equal "
            "amounts, unordered iff units differ, + - / panic iff units differ and are otherwise bit-identical to the "
            "amount operation. " + V_DESC,
    "floors": {"quick": {"types": 3, "single_unit_types": 1, "documented_panics": 20000,
                         "equal_amounts_in_different_units": 300, "same_unit_ops": 10000, "single_unit_ops": 2000}},
})

OPS_DESC = ("every operator instance the model derives from the declared derivations (34 catalogue + 4 astronomical [f64] "
            "+ 18 synthetic: for R=A*B: A*B, B*A, R/A, R/B; for R=A/B: A/B, R*B, B*R, A/R) x all unit pairs of its "
            "operand types")

PROPS["C04"] = _e1({
    "rule": {"quick": OPS_DESC + " x (x, y) in V x small alphabet, in the four ownership forms (a op b, &a op b, a op &b, "
                      "&a op &b: must agree bit for bit); the result amount in the unit the implementation chose is judged "
                      "against the exact product / quotient of the reference-unit magnitudes; depth 2: the inverse operator "
                      "instance applied to every result must bring back the left operand's magnitude within the composed "
                      "bound. Decimal cases are admitted iff the magnitude precondition of C18 holds (filtered counts "
                      "reported per clause). " + V_DESC,
             "thorough": "as quick with (x, y) in V x V over the thorough alphabet"},
    "floors": {"quick": {"operator_instances": 52, "operand_unit_pairs": 2500, "value_checked": 400000,
                         "sensitive": 300000, "round_trips_checked": 300000}},
})

PROPS["C05"] = _e1({
    "rule": OPS_DESC + " x operand amounts that put the result magnitude 1 % below, exactly onto and 1 % above EVERY unit "
            "scale of the result type, each with its 2 representable neighbours on either side, with second operand "
            "1 and 2 (thorough: also 0.5 and -4), plus zero, negative, below-smallest and above-largest magnitudes, plus "
            "the small alphabet squared. Oracle = literal transcription of the statement, computed independently of the "
            "selection code: sigma = scale(u_a) op scale(u_b) in the amount type from the reported scales; own linear "
            "lookup; natural unit => unit of that scale and amount bit-identical to x op y; else largest eligible scale "
            "<= exact magnitude (smallest eligible if none), eligible = SI-prefixed units iff the reference unit is "
            "SI-prefixed; where exact and computed magnitude straddle a boundary either neighbour is accepted; units "
            "compared by scale; reference-unit operands must give the reference unit itself",
    "floors": {"quick": {"operator_instances": 52, "natural_cases": 100000, "fit_cases": 500000,
                         "exactly_on_boundary": 1500, "ref_operand_cases": 10000}},
})

PROPS["C07"] = _e1({
    "rule": "the whole finite domain: every unit of every quantity type (14 catalogue types, 4 astronomical types under "
            "f64, synthetic types, AmountT) in both back-ends: name(), symbol(), si_prefix(), scale() against the "
            "independently written definition chains (Decimal: exact value; f64: the correctly rounded double; "
            "non-terminating definitions: 1e-15 relative), reference unit = scale one and named by both REF_UNIT "
            "constants, and all ordered pairs of SI-prefixed units of a quantity for S_u/S_v = 10^(e_u-e_v); the documented "
            "upper-snake-case constant of every catalogue / astronomical unit denotes that very unit (compile-time probe per "
            "constant, shared with C09). states = units, transitions = accessor calls + prefix pairs",
    "extra": lambda tier: e2_c09.probe(tier, "C07"),
    "floors": {"quick": {"types": 26, "catalogue_units": 109, "exact_scale_checks": 150, "prefix_pairs": 200,
                         "ref_unit_checks": 23}},
})

PROPS["C09"] = _e1({
    "rule": "every quantity type: the full iter()/iter_units() sequences against the order computed by the model "
            "(stable sort by scale, reference unit first among scale-one units, declaration order on other ties; name "
            "order without reference unit); from_symbol/unit_from_symbol on every declared symbol, every near miss "
            "generated from it (each single-character case flip, deletion, duplication, blanks, doubled, empty) and every "
            "symbol of every other type; from_scale/unit_from_scale on every declared scale (reported and from the table), "
            "both neighbours, negation, zero and every IEEE special; is_ref_unit, REF_UNIT, as_qty on every unit; "
            "program-space part: one compile-time probe per catalogue / astronomical unit asserting that the "
            "upper-snake-case constant predicted by the model exists and equals its variant (verdict per line)",
    "extra": e2_c09.probe,
    "floors": {"quick": {"types": 26, "units": 160, "sequences": 52, "symbol_hits": 160, "symbol_misses": 4000,
                         "scale_hits": 150, "scale_misses": 400}},
})

PROPS["C13"] = _e1({
    "rule": "all 56 ordered pairs (term quantity, per quantity) from {Length, Duration, SynPair (reference unit + exactly one unit), SynRef, SynA, SynSingle, "
            "SynNoRef (as per quantity, operand in the per unit), AmountT} x all term units x all per units x term amounts "
            "x per multiples x every operand unit x operand amounts (small alphabet): both constructors and four "
            "accessors, reciprocal (once and twice, bit-exact), rate*q and q*rate (bit-identical to each other, judged "
            "against the exact value term x (q / per)), q/rate (exact value per x (q / term)), reciprocal()*q (same exact "
            "value), and the inverse path (q/rate)*rate back to q's magnitude within the composed bound",
    "floors": {"quick": {"type_pairs": 56, "value_checked": 3000000, "operand_orders_agree": 500000,
                         "inverse_paths": 800000}},
})

PROPS["C14"] = _e1({
    "rule": "[thorough: additionally all 531 441 tables with N = 4; rows range over the first 3 units of SynNoRef, conversions are asked for all its units; amounts include the roots of the affine maps] (a) ALL conversion tables with N = 0, 1, 2, 3 entries over 3 units of SynNoRef, entries drawn from 9 "
            "(from, to) pairs including from = to x 3 affine maps (1 + 27 + 729 + 19 683 = 20 440 tables; duplicates, "
            "missing pairs, shadowed entries and (u,u) rows all occur) x 9 (source, target) pairs x 4 amounts: result "
            "unchanged for equal units, bit-identical to amount*factor+offset of the FIRST matching entry, None otherwise; "
            "(b) TEMPERATURE_CONVERTER: breadth-first closure to depth 3 over the 3 units from V u fixed points of the "
            "scales (-459.67, -273.15, -40, 0, 32, 100, 273.15, 373.15, 1e6), every transition judged against the exact "
            "formulas with the bound of one multiply-add whose literals carry an 18-digit / double representation error; "
            "all depth-2 paths judged for round trip and composition",
    "floors": {"quick": {"tables": 20440, "mapped_cases": 100000, "no_entry_cases": 300000, "shadowed_entry_cases": 10000,
                         "same_unit_cases": 200000, "value_checked": 900, "paths_depth2": 400}},
})

PROPS["C15"] = _e1({
    "rule": {"quick": "per type the smallest, middle, reference and largest unit plus units with non-ASCII symbols x ~40 "
                      "amounts of every sign and magnitude class (negative zero under f64, 18-digit decimals, ties such as "
                      "2.5, 0.125, 0.045, 9.995, 999.95) x the format grid: 32 flag combinations (sign flag x zero flag x "
                      "fill/alignment in {none, <, ^, >, *<, _^, 0>, micro-sign>}) x widths {none,0,1,7,12,40} x precisions "
                      "{none,0,1,2,6,18,20} = 1344 specifications per value; the unit itself under the same grid against "
                      "str formatting of its symbol; rates under {} for 6 type pairs x all units x amounts x multiples "
                      "(incl. the neighbours of one). Oracle: independent layout model (character-count padding, explicit "
                      "alignment exact, default alignment left or right accepted, sign-aware zero padding) + amount text "
                      "parses back bit-exactly / is correctly rounded to exactly p digits (decided in exact rationals)",
             "thorough": "as quick with every unit, widths none and 0..40, precisions none and 0..20 (29 568 "
                         "specifications per value) and extreme magnitudes (1e300, 5e-324, f64::MAX)"},
    "floors": {"quick": {"types": 26, "units": 80, "transitions": 3000000, "unit_specs": 100000, "rate_cases": 50000,
                         "rate_multiple_one_cases": 10000}},
})

PROPS["C16"] = _e1({
    "backends": ["f64"],
    "rule": {"quick": "exhaustive over the finite parts: all 25 prefixes (name, abbr, exp, both round trips, pairwise "
                      "distinctness, iteration order), all 256 values of i8 through from_exp, all strings of length 0..2 "
                      "over the abbreviation alphabet (every character of every abbreviation, its case-swapped forms, "
                      "blank, 'u', 'x', '0', GREEK MU U+03BC and MICRO SIGN U+00B5) through from_abbr",
             "thorough": "as quick plus all strings of length 3 over the same alphabet"},
    "floors": {"quick": {"states": 10000, "sensitive": 75, "alphabet_chars": 100}},
    "assumptions": ["SIPrefix does not depend on the amount back-end (one build suffices)"],
})

PROPS["C17"] = _e1({
    "rule": "all units of all 14 catalogue quantity types (and the synthetic types) x V u adversarial amounts (f64: 17 "
            "significant digits, 0.1+0.2, subnormals, f64::MAX, -0.0, 2^53+-1; Decimal: 18 fractional digits, trailing "
            "zeros 1.50 vs 1.5 vs 1.500000000000000000, 38-digit coefficients, negative zero literal) through three "
            "channels (serde_json Value tree; JSON text with the exactly rounding float parser; bytes); unit and "
            "bit-identical amount must come back; units serialise as their variant names; a hash map from JSON text to "
            "state proves injectivity over the whole explored set of each type; the round trips of every catalogue unit x 12-15 "
            "amounts are repeated in a second consumer configuration, serde_json built with `arbitrary_precision` (harness/qv-serde-ap)",
    "extra": c17_ap.probe,
    "floors": {"quick": {"types": 25, "catalogue_units": 112, "round_trips_ok": 15000, "distinct_serialisations": 5000}},
    "assumptions": ["serde_json 1.0 with feature float_roundtrip is the 'exactly rounding float parser' of the statement"],
})

PROPS["C18"] = _e1({
    "profiles": ["dev", "rel"],
    "rule": "[each back-end in two builds: dev profile, and the same without debug assertions / overflow checks] " "the operation menus of C01-C05, C08, C13-C15 re-run under catch_unwind over the totality alphabets: f64: "
            "V u S (zero, negative zero, subnormals, MIN_POSITIVE, MAX, +-inf, NaN with two payloads) for EVERY operand; "
            "Decimal: V u R (range edges +-1e-15, +-1e17, +-(1e17-1), +-1.5e-15), admitted iff the magnitude precondition "
            "of the statement holds, evaluated exactly (operands, reference-unit magnitudes, smallest-unit expression, "
            "scale product/ratio, divisor in the dividend's unit, own-unit product/quotient, result in every unit). "
            "Operations: convert/equiv_amount, ==, <, >=, partial_cmp, +, -, / on all ordered unit pairs of all types with "
            "reference unit; _fit on every alphabet amount; format! under 5 specifications incl. width 40 / precision 20; "
            "all 56 derived operator instances x all operand unit pairs x T x T; rate*q, q*rate, q/rate and rate "
            "formatting for 3 type pairs. A panic on an admitted case is a violation; excluded cases are counted per "
            "clause. The documented panic for different units of a quantity without reference unit is decided by C10 "
            "(panic iff units differ, over V u S)",
    "floors": {"quick": {"types": 23, "operator_instances": 52, "admitted_no_panic": 3000000, "derived_ops": 2000000,
                         "fit_calls": 500}},
})

PROPS["C06"] = lambda prop, tier, seed, t0: e2_c06.run(prop, tier, seed, t0)

PROPS["C11"] = lambda prop, tier, seed, t0: e2_c11.run(prop, tier, seed, t0)

PROPS["C12"] = lambda prop, tier, seed, t0: e2_c12.run(prop, tier, seed, t0)

PROPS["C19"] = lambda prop, tier, seed, t0: e3.run(prop, tier, seed, t0)


def run_selftest():
    """qv-model's exact arithmetic against Python's (differential, enumerated corpus)"""
    path, n = selftest.write()
    env_backup = os.environ.get("QV_SELFTEST")
    os.environ["QV_SELFTEST"] = path
    try:
        d = common.run_drive("f64", "selftest", "quick")
    finally:
        if env_backup is None:
            os.environ.pop("QV_SELFTEST", None)
    if d["n_violations"] or d["counters"].get("transitions", 0) < n:
        raise Machinery("qv-model self-test failed: %s violations, %s of %s cases: %s" % (
            d["n_violations"], d["counters"].get("transitions"), n, d["violations"][:2]))
    print("qv-model self-test: %d cases agree with Python's exact arithmetic" % n)
    return n


def setup():
    t0 = time.time()
    catalogue.generate(BUILD)
    common.build_drives(["f64", "dec"])
    common.build_drives(["f64-rel", "dec-rel"])
    run_selftest()
    # warm the E2 / E3 builds so that the first quick checks are fast
    for b in ("f64", "dec"):
        e2.artifacts(b)
    import concurrent.futures as cf
    with cf.ThreadPoolExecutor(max_workers=8) as ex:
        list(ex.map(lambda v: e3.build_config(frozenset(), v), e3.VARIANTS))
    # the second serde_json configuration of C17 (own target directories)
    c17_ap.probe("quick")
    print("setup done in %.1fs" % (time.time() - t0))
    return 0


def replay(path):
    with open(path, encoding="utf-8") as f:
        v = json.load(f)
    prop = v["property"]
    if v.get("engine") == "E1":
        catalogue.generate(BUILD)
        common.build_drives([v["backend"]])
        d1 = common.run_drive(v["backend"], prop, v["tier"], block=v["block"])
        d2 = common.run_drive(v["backend"], prop, v["tier"], block=v["block"])
        for d in (d1, d2):
            d.pop("wall_s", None)
        if d1 != d2:
            raise Machinery("replay is not deterministic: two runs of block %s differ" % v["block"])
        cls = v["key"].rsplit("@", 1)[0]
        hits = [x for x in d1["violations"] if x["class"] == cls]
        print("replay of %s block %s (%s): %d violation(s) of class %s in this block (two identical runs)" % (
            prop, v["block"], v["backend"], d1["by_class"].get(cls, 0), cls))
        for x in hits[:5]:
            print("  case: %s" % json.dumps(x["case"], ensure_ascii=False))
            print("  observed: %s" % x["observed"])
            print("  expected: %s" % x["expected"])
        if hits:
            print("VIOLATION property=%s replay=%s" % (prop, path))
            return 1
        print("not reproduced on the current tree")
        return 0
    if v.get("engine") == "E2":
        catalogue.generate(BUILD)
        d = e2.gen_dir("replay")
        src = os.path.join(d, "replay.rs")
        with open(src, "w", encoding="utf-8") as f:
            f.write(v["program"] + "\n")
        r1 = e2.rustc_check(src, v["backend"])
        r2 = e2.rustc_check(src, v["backend"])
        if r1 != r2:
            raise Machinery("replay is not deterministic")
        errs = [x for x in r1[1] if x["level"] == "error"]
        got = "reject" if errs else "accept"
        print("replay of %s (%s): rustc verdict %s, expected %s" % (prop, v["backend"], got, v["expect"]))
        for x in errs[:5]:
            print("  %s line %s: %s" % (x["code"], x["line"], x["message"]))
        if got != v["expect"] or v.get("always"):
            print("VIOLATION property=%s replay=%s" % (prop, path))
            return 1
        print("not reproduced on the current tree")
        return 0
    if v.get("engine") == "E3":
        model = catalogue.generate(BUILD)
        c = v["example"]["case"]
        variant = next((x for x in e3.VARIANTS if e3.vname(x) == c.get("variant")), e3.VARIANTS[0])
        fset = frozenset(c.get("features") or ([c["feature"]] if c.get("feature") else []))
        table = e3.feature_table()
        fset = frozenset(e3.closure(fset, table) & set(e3.quantity_features(model)))
        ok, rlib, deps, log = e3.build_config(fset, variant)
        print("replay of C19: cargo build --lib -p quantities --no-default-features --features %s -> %s" % (",".join(e3.cargo_features(fset, variant)), "ok" if ok else "FAILED"))
        pok = False
        if ok:
            src, _, _ = e3.probe_source(fset, model)
            pok, plog = e3.rustc_probe(src, rlib, deps, os.path.join(BUILD, "gen", "c19-replay"), "probe")
            print("exposure probe: %s" % ("ok" if pok else "FAILED\n" + plog))
        else:
            print(log)
        if not (ok and pok) or "results-depend" in v["key"]:
            if "results-depend" in v["key"]:
                print("(corpus differences are re-examined by ./check C19)")
            print("VIOLATION property=%s replay=%s" % (prop, path))
            return 1
        print("not reproduced on the current tree")
        return 0
    raise Machinery("unknown replay format")
