"""C09, program-space part: every unit is reachable through its upper-snake-case constant.  One probe line per
unit, naming the constant the model predicts and asserting (at compile time) that it equals its variant."""
import os

import catalogue
import common
import e2


def probe(tier, prop="C09"):
    model = catalogue.generate(common.BUILD)
    counters = {"constant_probes": 0, "constant_probes_ok": 0}
    violations = []
    samples = []
    for backend in ("f64", "dec"):
        lines = ["#![allow(unused)]"]
        owners = {}
        for t in model["types"]:
            if t["universe"] == "main" or (t["universe"] == "astro" and backend == "f64"):
                for u in t["units"]:
                    lines.append("const _: () = assert!(matches!(%s::%s, %s::%sUnit::%s));" % (t["path"], u["const"], t["path"], t["name"], u["variant"]))
                    owners[len(lines)] = (t["key"], u)
        lines.append("const _: () = assert!(matches!(quantities::ONE, quantities::One::One));")
        owners[len(lines)] = ("amt.AmountT", {"const": "ONE", "variant": "One"})
        d = e2.gen_dir("%s-consts-%s" % (prop.lower(), backend))
        src = os.path.join(d, "consts.rs")
        with open(src, "w", encoding="utf-8") as f:
            f.write("\n".join(lines) + "\n")
        rc, diags = e2.rustc_check(src, backend)
        bad = {}
        for x in diags:
            if x["level"] == "error" and x["line"] in owners:
                bad.setdefault(x["line"], x)
        stray = [x for x in diags if x["level"] == "error" and x["line"] not in owners]
        if stray and not bad:
            raise common.Machinery("C09 constant probe: unattributable compile error: %s" % stray[0])
        for ln, (key, u) in owners.items():
            counters["constant_probes"] += 1
            if ln in bad:
                violations.append({
                    "property": prop, "key": "%s/unit-constant/%s.%s@%s" % (prop, key, u["const"], backend), "count": 1, "engine": "E2",
                    "backend": backend, "tier": tier, "program": "#![allow(unused)]\n" + lines[ln - 1], "expect": "accept",
                    "example": {"case": {"type": key, "constant": u["const"], "variant": u["variant"]},
                                "observed": "%s: %s" % (bad[ln]["code"], bad[ln]["message"][:200]),
                                "expected": "the constant exists and equals its variant"}})
            else:
                counters["constant_probes_ok"] += 1
        samples.append({"backend": backend, "probe": lines[5]})
    if counters["constant_probes"] < 2 * 112 + 27:
        raise common.Machinery("vacuity guard: only %d constant probes" % counters["constant_probes"])
    return counters, violations, samples
