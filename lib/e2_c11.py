"""C11 - generated types reflect their declaration in any order or literal form.

Exhaustive enumeration of the definition grammar G (lib/defgen.py); every definition is compiled against the real
macro and crate, dumps its registry and the results of an operator corpus at run time, and the dump is compared with
what the Python model of the declaration predicts."""
import copy
import json
import os
import subprocess
from fractions import Fraction

import catalogue
import common
import defgen
import e2
from common import Machinery

CHUNK = 60

RUST_HEADER = r'''#![allow(unused, non_snake_case, non_camel_case_types, non_upper_case_globals)]
use quantities::prelude::*;
use quantities::{AmountT, HasRefUnit, LinearScaledUnit, Quantity, Unit};
use serde_json::{json, Value};
use std::fmt::{Debug, Display};
use std::ops::{Add, Div, Mul, Sub};
use std::panic::{catch_unwind, AssertUnwindSafe};

#[cfg(not(dec))]
fn amt(a: AmountT) -> Value { json!({"f": format!("{:?}", a)}) }
#[cfg(dec)]
fn amt(a: AmountT) -> Value { json!({"c": a.coefficient().to_string(), "n": a.n_frac_digits()}) }
#[cfg(not(dec))]
fn lit(s: &str) -> AmountT { s.parse().unwrap() }
#[cfg(dec)]
fn lit(s: &str) -> AmountT { <quantities::Decimal as std::str::FromStr>::from_str(s).unwrap() }

fn guard<T>(f: impl FnOnce() -> T) -> Option<T> { catch_unwind(AssertUnwindSafe(f)).ok() }

fn units_dump<Q: Quantity>() -> Value where Q::UnitType: Debug {
    let a: Vec<Value> = Q::iter_units().map(|u| json!({"v": format!("{:?}", u), "name": u.name(), "sym": u.symbol(),
        "prefix": u.si_prefix().map(|p| format!("{:?}", p)), "as_qty": amt(u.as_qty().amount()),
        "by_symbol": Q::unit_from_symbol(&u.symbol()).map(|x| format!("{:?}", x)),
        "unit_display": format!("{}", u)})).collect();
    let b: Vec<String> = <Q::UnitType as Unit>::iter().map(|u| format!("{:?}", u)).collect();
    json!({"units": a, "unit_iter": b})
}

fn ref_dump<Q: HasRefUnit>() -> Value where Q::UnitType: LinearScaledUnit + Debug {
    let s: Vec<Value> = Q::iter_units().map(|u| json!({"scale": amt(u.scale()), "is_ref": u.is_ref_unit(),
        "by_scale": Q::unit_from_scale(u.scale()).map(|x| format!("{:?}", x))})).collect();
    json!({"scales": s, "ref_unit": format!("{:?}", <Q as HasRefUnit>::REF_UNIT),
           "ref_unit_of_unit_type": format!("{:?}", <Q::UnitType as LinearScaledUnit>::REF_UNIT)})
}

fn ord(o: Option<std::cmp::Ordering>) -> Value { json!(o.map(|x| format!("{:?}", x))) }

fn scalar_ops<Q>(q: Q) -> Value
where Q: Quantity + Mul<AmountT, Output = Q> + Div<AmountT, Output = Q>, AmountT: Mul<Q, Output = Q>, Q::UnitType: Debug {
    let k = lit("2.5");
    let (r1, r2, r3) = (k * q, q * k, q / k);
    json!({"k*q": amt(r1.amount()), "q*k": amt(r2.amount()), "q/k": amt(r3.amount()),
           "units": [format!("{:?}", r1.unit()), format!("{:?}", r2.unit()), format!("{:?}", r3.unit())]})
}

fn corpus_ref<Q>() -> Value
where Q: HasRefUnit + Add<Q, Output = Q> + Sub<Q, Output = Q> + Div<Q, Output = AmountT> + PartialEq + PartialOrd + Display
        + Mul<AmountT, Output = Q> + Div<AmountT, Output = Q>,
      AmountT: Mul<Q, Output = Q> + Mul<Q::UnitType, Output = Q>,
      Q::UnitType: LinearScaledUnit + Debug + Mul<AmountT, Output = Q> {
    let us: Vec<Q::UnitType> = Q::iter_units().collect();
    let (ui, uj) = (us[0], us[us.len() - 1]);
    let (a, b) = (lit("3"), lit("0.5"));
    let (qi, qj) = (Q::new(a, ui), Q::new(b, uj));
    let (m1, m2) = (a * ui, ui * a);
    json!({
        "new": [amt(qi.amount()), json!(format!("{:?}", qi.unit()))],
        "amount*unit": [amt(m1.amount()), json!(format!("{:?}", m1.unit()))],
        "unit*amount": [amt(m2.amount()), json!(format!("{:?}", m2.unit()))],
        "add": [amt((qi + qj).amount()), json!(format!("{:?}", (qi + qj).unit()))],
        "sub": [amt((qi - qj).amount()), json!(format!("{:?}", (qi - qj).unit()))],
        "div": amt(qi / qj),
        "convert": [amt(qj.convert(ui).amount()), json!(format!("{:?}", qj.convert(ui).unit())), amt(qj.equiv_amount(ui))],
        "cmp": {"eq": qi == qj, "ne": qi != qj, "lt": qi < qj, "gt": qi > qj, "pc": ord(PartialOrd::partial_cmp(&qi, &qj)),
                "self_eq": qi == qi, "self_pc": ord(PartialOrd::partial_cmp(&qj, &qj))},
        "scalar": scalar_ops(qi),
        "display": [format!("{}", qi), format!("{:>12.2}", qi), format!("{:<+9}|", qj)],
    })
}

fn corpus_noref<Q>() -> Value
where Q: Quantity + Add<Q, Output = Q> + Sub<Q, Output = Q> + Div<Q, Output = AmountT> + PartialEq + PartialOrd + Display
        + Mul<AmountT, Output = Q> + Div<AmountT, Output = Q>,
      AmountT: Mul<Q, Output = Q> + Mul<Q::UnitType, Output = Q>,
      Q::UnitType: Debug + Mul<AmountT, Output = Q> {
    let us: Vec<Q::UnitType> = Q::iter_units().collect();
    let (ui, uj) = (us[0], us[us.len() - 1]);
    let (a, b) = (lit("3"), lit("0.5"));
    let (qi, qi2, qj) = (Q::new(a, ui), Q::new(b, ui), Q::new(a, uj));
    let (m1, m2) = (a * ui, ui * a);
    json!({
        "new": [amt(qi.amount()), json!(format!("{:?}", qi.unit()))],
        "amount*unit": [amt(m1.amount()), json!(format!("{:?}", m1.unit()))],
        "unit*amount": [amt(m2.amount()), json!(format!("{:?}", m2.unit()))],
        "add": [amt((qi + qi2).amount()), json!(format!("{:?}", (qi + qi2).unit()))],
        "sub": [amt((qi - qi2).amount()), json!(format!("{:?}", (qi - qi2).unit()))],
        "div": amt(qi / qi2),
        "cross_add_panics": guard(|| (qi + qj).amount()).is_none(),
        "cross_div_panics": guard(|| qi / qj).is_none(),
        "cmp": {"eq_same": qi == qi, "eq_cross": qi == qj, "lt": qi2 < qi, "pc_same": ord(PartialOrd::partial_cmp(&qi, &qi2)),
                "pc_cross": ord(PartialOrd::partial_cmp(&qi, &qj))},
        "scalar": scalar_ops(qi),
        "display": [format!("{}", qi), format!("{:>12.2}", qi), format!("{:<+9}|", qi2)],
    })
}

fn corpus_single<Q>() -> Value
where Q: Quantity + Add<Q, Output = Q> + Sub<Q, Output = Q> + Div<Q, Output = AmountT> + Display
        + Mul<AmountT, Output = Q> + Div<AmountT, Output = Q>,
      AmountT: Mul<Q, Output = Q> + Mul<Q::UnitType, Output = Q>,
      Q::UnitType: Debug + Mul<AmountT, Output = Q> {
    let us: Vec<Q::UnitType> = Q::iter_units().collect();
    let ui = us[0];
    let (a, b) = (lit("3"), lit("0.5"));
    let (qi, qi2) = (Q::new(a, ui), Q::new(b, ui));
    let (m1, m2) = (a * ui, ui * a);
    json!({
        "new": [amt(qi.amount()), json!(format!("{:?}", qi.unit()))],
        "amount*unit": [amt(m1.amount()), json!(format!("{:?}", m1.unit()))],
        "unit*amount": [amt(m2.amount()), json!(format!("{:?}", m2.unit()))],
        "add": [amt((qi + qi2).amount()), json!(format!("{:?}", (qi + qi2).unit()))],
        "sub": [amt((qi - qi2).amount()), json!(format!("{:?}", (qi - qi2).unit()))],
        "div": amt(qi / qi2),
        "scalar": scalar_ops(qi),
        "display": [format!("{}", qi), format!("{:>12.2}", qi), format!("{:<+9}|", qi2)],
    })
}

fn res<Z: Quantity>(z: Z) -> Value where Z::UnitType: Debug { json!([amt(z.amount()), format!("{:?}", z.unit())]) }
'''


# ---------------------------------------------------------------------------
def enumerate_definitions(tier):
    defs = []
    n = 0
    for d in defgen.ref_definitions(tier) + defgen.big_ref_definitions(tier) + defgen.huge_ref_definitions(tier) + defgen.long_literal_definitions(tier) + defgen.odd_name_definitions(tier) + defgen.tiny_ref_definitions(tier) + defgen.noref_definitions(tier):
        defs.append(defgen.uniquify(d, n))
        n += 1
    # derived: each result-type shape declared as A*B, A/B, A*A, AmountT/A over two fresh base definitions
    results = [(["0.5"], 0, None), (["1000"], 1, [1, 0]), (["0.001", "1000"], 2, None), (["1000.", "0.001"], 3, [2, 1, 0]),
               (["1", "2.5"], 4, [1, 0, 2]), (["1e3", "1.0"], 5, None)]
    op_scales = [("1000", "0.001"), ("1000", "1000"), ("0.5", "2.5")]
    for shape in ("A*B", "A/B", "A*A", "AmountT/A"):
        for lits, pat, order in results:
            for sa, sb in (op_scales if tier == "thorough" else op_scales[:2]):
                p = defgen.pattern(pat, len(lits) + 1)
                us = [defgen.unit("Unit_%sx" % "ABC"[i], defgen.SYMS[i + 1], lit, defgen.PREFIX_FOR.get(lit) if p["prefix_units"] else None,
                                  "doc %d" % i if p["doc"] else None) for i, lit in enumerate(lits)]
                r = defgen.unit("Ref_Unit", defgen.SYMS[0], None, "NONE" if p["prefix_ref"] else None, "reference" if p["doc"] else None)
                d = defgen.uniquify({"kind": "ref", "ref": r, "units": us, "order": order, "doc_pos": p["doc_pos"], "combo": tuple(lits)}, n)
                n += 1
                t = d["tag"]
                a = {"kind": "ref", "name": t + "Opa", "tag": t, "ref": defgen.unit(t + "_Opa_Base", "oa"), "units": [defgen.unit(t + "_Opa_Other", "oao", sa)],
                     "order": None, "doc_pos": None, "operand": True}
                b = {"kind": "ref", "name": t + "Opb", "tag": t, "ref": defgen.unit(t + "_Opb_Base", "ob"), "units": [defgen.unit(t + "_Opb_Other", "obo", sb)],
                     "order": None, "doc_pos": None, "operand": True}
                d["shape"] = shape
                d["operands"] = [a] + ([b] if shape in ("A*B", "A/B") else [])
                d["derived"] = {"A*B": (a["name"], "*", b["name"]), "A/B": (a["name"], "/", b["name"]), "A*A": (a["name"], "*", a["name"]),
                                "AmountT/A": ("AmountT", "/", a["name"])}[shape]
                defs.append(d)
    return defs


def dump_fn(d, n):
    """Rust code of the function that dumps definition d"""
    reg = defgen.expected_registry(d)
    q = d["name"]
    consts = ", ".join('json!({"c": "%s", "ok": %s == %sUnit::%s})' % (u["const"], u["const"], q, u["variant"]) for u in reg)
    kind = d["kind"]
    fields = ['"name": "%s"' % q, '"reg": units_dump::<%s>()' % q, '"consts": [%s]' % consts]
    if kind == "ref":
        fields += ['"ref": ref_dump::<%s>()' % q, '"corpus": corpus_ref::<%s>()' % q]
    elif kind == "noref":
        fields.append('"corpus": corpus_noref::<%s>()' % q)
    else:
        fields.append('"corpus": corpus_single::<%s>()' % q)
    body = []
    if d.get("derived"):
        a, op, b = d["derived"]
        ops = {o["name"]: o for o in d["operands"]}
        # all operand unit pairs, x = 3, y = 0.5, owned and borrowed forms
        def units_of(tn):
            if tn == "AmountT":
                return ["quantities::ONE"]
            return ["%sUnit::%s" % (tn, u["variant"]) for u in defgen.expected_registry(ops[tn])]
        rows = []
        for ua in units_of(a):
            for ub in units_of(b):
                x = "%s::new(lit(\"3\"), %s)" % (a if a != "AmountT" else "<AmountT as Quantity>", ua)
                y = "%s::new(lit(\"0.5\"), %s)" % (b, ub)
                rows.append('json!({"forms": [res::<%s>(%s %s %s), res::<%s>(&%s %s %s), res::<%s>(%s %s &%s), res::<%s>(&%s %s &%s)]})'
                            % (q, x, op, y, q, x, op, y, q, x, op, y, q, x, op, y))
        fields.append('"derived": [%s]' % ", ".join(rows))
        # the inverse operators exist and return the operand types
        z = "%s::new(lit(\"3\"), <%s as HasRefUnit>::REF_UNIT)" % (q, q)
        yb = "%s::new(lit(\"0.5\"), <%s as HasRefUnit>::REF_UNIT)" % (b, b)
        inv = "/" if op == "*" else "*"
        lhs_t = a if a != "AmountT" else "AmountT"
        fields.append('"inverse": res::<%s>(%s %s %s)' % (lhs_t, z, inv, yb))
    return "fn d_%d() -> Value { json!({%s}) }" % (n, ", ".join(fields))


def render_group(d):
    lines = []
    for o in d.get("operands", []):
        lines += defgen.render(o)
    lines += defgen.render(d)
    return lines


# ---------------------------------------------------------------------------
# expectations
def val(v):
    """exact Fraction of a dumped amount"""
    if "f" in v:
        return Fraction(float(v["f"])) if v["f"] not in ("inf", "-inf", "NaN") else None
    return Fraction(int(v["c"]), 10 ** int(v["n"]))


LOOSE = [False]  # set per definition: scales with more digits than the amount type's arithmetic keeps exact


def close(got, want, backend):
    g = val(got)
    if g is None:
        return False
    if backend == "dec" and not LOOSE[0]:
        return g == want
    if backend == "dec":
        # rounded to 18 fractional digits at every step of the expression
        return abs(g - want) <= abs(want) * Fraction(1, 10 ** 12) + Fraction(4, 10 ** 18)
    if want == 0:
        return abs(g) <= Fraction(1, 10 ** 15)
    return abs(g - want) <= abs(want) * Fraction(1, 10 ** 12)


def amount_text(fr, places=None):
    """Display text of an exactly representable small amount (3, 0.5, ...)"""
    if places is None:
        if fr.denominator == 1:
            return str(fr.numerator)
        s = "%.10f" % float(fr)
        return s.rstrip("0")
    q = Fraction(round(fr * 10 ** places), 10 ** places)
    s = "%.*f" % (places, float(q))
    return s


def in_backend(lit, backend):
    """value of a scale literal in the amount type"""
    fr = catalogue.lit_value(lit)
    if backend == "f64":
        return Fraction(float(fr))
    return fr


def check_definition(d, rec, backend, problems):
    """compare one dumped record with the model; append (class, detail) to problems"""
    reg = defgen.expected_registry(d)
    name = d["name"]
    LOOSE[0] = bool(d.get("loose"))
    exact_key = (lambda x: float(x)) if backend == "f64" else (lambda x: x)

    def bad(cls, what, got, want):
        problems.append((cls, {"definition": defgen.render(d), "what": what}, json.dumps(got, ensure_ascii=False)[:300], json.dumps(want, ensure_ascii=False)[:300]))

    got_units = rec["reg"]["units"]
    want_order = [u["variant"] for u in reg]
    got_order = [u["v"] for u in got_units]
    if got_order != want_order or rec["reg"]["unit_iter"] != want_order:
        same_set = sorted(got_order) == sorted(want_order)
        bad("C11/iteration-order" if same_set else "C11/unit-set", "iter_units / Unit::iter", got_order, want_order)
        if not same_set:
            return
        # continue with the observed order mapped onto the model
    by_variant = {u["variant"]: u for u in reg}
    for gu in got_units:
        w = by_variant[gu["v"]]
        if gu["name"] != w["name"]:
            bad("C11/name", "name() of %s" % gu["v"], gu["name"], w["name"])
        if gu["sym"] != w["sym"]:
            bad("C11/symbol", "symbol() of %s" % gu["v"], gu["sym"], w["sym"])
        if gu["prefix"] != w["prefix"]:
            bad("C11/prefix", "si_prefix() of %s" % gu["v"], gu["prefix"], w["prefix"])
        if val(gu["as_qty"]) != 1:
            bad("C11/as-qty", "as_qty() of %s" % gu["v"], gu["as_qty"], "1")
        if gu["unit_display"] != w["sym"]:
            bad("C11/unit-display", "Display of unit %s" % gu["v"], gu["unit_display"], w["sym"])
        first = next(u["variant"] for u in reg if u["sym"] == w["sym"])
        if gu["by_symbol"] != first:
            bad("C11/lookup-by-symbol", "unit_from_symbol(%r)" % w["sym"], gu["by_symbol"], first)
    for c in rec["consts"]:
        if not c["ok"]:
            bad("C11/constant", "constant %s" % c["c"], False, True)
    corpus = rec["corpus"]
    ui, uj = reg[0], reg[-1]
    A, B = Fraction(3), Fraction(1, 2)
    if d["kind"] == "ref":
        r = rec["ref"]
        ref_variant = next(u["variant"] for u in reg if u["is_ref"])
        if r["ref_unit"] != ref_variant or r["ref_unit_of_unit_type"] != ref_variant:
            bad("C11/ref-unit", "REF_UNIT", [r["ref_unit"], r["ref_unit_of_unit_type"]], ref_variant)
        for gu, gs in zip(got_units, r["scales"]):
            w = by_variant[gu["v"]]
            want = Fraction(1) if w["is_ref"] else in_backend(w["lit"], backend)
            if val(gs["scale"]) != want:
                bad("C11/scale", "scale() of %s (literal %s)" % (gu["v"], w["lit"]), gs["scale"], str(want))
            if gs["is_ref"] != w["is_ref"]:
                bad("C11/ref-unit", "is_ref_unit() of %s" % gu["v"], gs["is_ref"], w["is_ref"])
            first = next(u["variant"] for u in reg if exact_key(u["scale"]) == exact_key(w["scale"]))
            if gs["by_scale"] != first:
                bad("C11/lookup-by-scale", "unit_from_scale(scale of %s)" % gu["v"], gs["by_scale"], first)
        si, sj = ui["scale"], uj["scale"]
        exp = {"add": A + B * sj / si, "sub": A - B * sj / si}
        for k in ("add", "sub"):
            if not close(corpus[k][0], exp[k], backend) or corpus[k][1] != ui["variant"]:
                bad("C11/operators", k, corpus[k], [str(exp[k]), ui["variant"]])
        if not close(corpus["div"], A * si / (B * sj), backend):
            bad("C11/operators", "div", corpus["div"], str(A * si / (B * sj)))
        cv = corpus["convert"]
        if not close(cv[0], B * sj / si, backend) or cv[1] != ui["variant"] or cv[0] != cv[2]:
            bad("C11/operators", "convert / equiv_amount", cv, [str(B * sj / si), ui["variant"]])
        ma, mb = A * si, B * sj
        c = corpus["cmp"]
        if ma != mb:
            want = {"eq": False, "ne": True, "lt": ma < mb, "gt": ma > mb, "pc": "Less" if ma < mb else "Greater", "self_eq": True, "self_pc": "Equal"}
            if c != want:
                bad("C11/comparison", "comparison of 3 %s with 0.5 %s" % (ui["variant"], uj["variant"]), c, want)
        sym_i, sym_j = ui["sym"], uj["sym"]
        want_disp = ["3 " + sym_i, ("3.00 " + sym_i).rjust(12), ("+0.5 " + sym_j).ljust(9) + "|"]
    else:
        exp_add, exp_sub, exp_div = A + B, A - B, A / B
        for k, e in (("add", exp_add), ("sub", exp_sub)):
            if not close(corpus[k][0], e, backend) or corpus[k][1] != ui["variant"]:
                bad("C11/operators", k, corpus[k], [str(e), ui["variant"]])
        if not close(corpus["div"], exp_div, backend):
            bad("C11/operators", "div", corpus["div"], str(exp_div))
        if d["kind"] == "noref":
            cross = ui["variant"] != uj["variant"]
            if corpus["cross_add_panics"] != cross or corpus["cross_div_panics"] != cross:
                bad("C11/operators", "mixing units without reference unit", [corpus["cross_add_panics"], corpus["cross_div_panics"]], cross)
            want = {"eq_same": True, "eq_cross": not cross, "lt": True, "pc_same": "Greater", "pc_cross": None if cross else "Equal"}
            if corpus["cmp"] != want:
                bad("C11/comparison", "comparison", corpus["cmp"], want)
        want_disp = ["3 " + ui["sym"], ("3.00 " + ui["sym"]).rjust(12), ("+0.5 " + ui["sym"]).ljust(9) + "|"]
    for k in ("new", "amount*unit", "unit*amount"):
        if val(corpus[k][0]) != A or corpus[k][1] != ui["variant"]:
            bad("C11/constructors", k, corpus[k], ["3", ui["variant"]])
    sc = corpus["scalar"]
    if not (val(sc["k*q"]) == Fraction(15, 2) and val(sc["q*k"]) == Fraction(15, 2) and close(sc["q/k"], Fraction(6, 5), backend)) or sc["units"] != [ui["variant"]] * 3:
        bad("C11/operators", "scalar operators", sc, "7.5, 7.5, 1.2 in " + ui["variant"])
    if corpus["display"] != want_disp:
        bad("C11/display", "Display", corpus["display"], want_disp)
    if d.get("derived"):
        check_derived(d, rec, backend, bad)


def check_derived(d, rec, backend, bad):
    a, op, b = d["derived"]
    ops = {o["name"]: o for o in d["operands"]}
    reg = defgen.expected_registry(d)

    def units_of(tn):
        if tn == "AmountT":
            return [{"variant": "One", "scale": Fraction(1), "lit": "1", "is_ref": True}]
        return defgen.expected_registry(ops[tn])

    def sc(u):
        return Fraction(1) if u["is_ref"] else in_backend(u["lit"], backend)

    def z_scale(u):
        return Fraction(1) if u["is_ref"] else in_backend(u["lit"], backend)
    rows = rec["derived"]
    i = 0
    ref_si = bool(next(u for u in reg if u["is_ref"])["prefix"])
    elig = [u for u in reg if (not ref_si) or u["prefix"]]
    for ua in units_of(a):
        for ub in units_of(b):
            row = rows[i]["forms"]
            i += 1
            if any(f != row[0] for f in row[1:]):
                bad("C11/derived-operators", "owned / borrowed forms differ", row, row[0])
            sa, sb = sc(ua), sc(ub)
            if backend == "f64":
                sigma = Fraction(float(sa) * float(sb)) if op == "*" else Fraction(float(sa) / float(sb))
            else:
                sigma = sa * sb if op == "*" else sa / sb
            xy = Fraction(3) * Fraction(1, 2) if op == "*" else Fraction(3) / Fraction(1, 2)
            m = xy * (sa * sb if op == "*" else sa / sb)
            nat = next((u for u in reg if z_scale(u) == sigma), None)
            got_amt, got_unit = row[0]
            gu = next((u for u in reg if u["variant"] == got_unit), None)
            if gu is None:
                bad("C11/derived-operators", "result unit", got_unit, [u["variant"] for u in reg])
                continue
            if nat is not None:
                want_scale, want_amt = z_scale(nat), xy
            else:
                fits = [u for u in elig if z_scale(u) <= m]
                w = max(fits, key=z_scale) if fits else min(elig, key=z_scale)
                want_scale, want_amt = z_scale(w), m / z_scale(w)
            if z_scale(gu) != want_scale or not close(got_amt, want_amt, backend):
                bad("C11/derived-operators", "%s[%s] %s %s[%s]" % (a, ua["variant"], op, b, ub["variant"]), row[0],
                    "%s in a unit of scale %s" % (want_amt, want_scale))
    inv = rec["inverse"]
    want = Fraction(3) / Fraction(1, 2) if op == "*" else Fraction(3) * Fraction(1, 2)
    la = units_of(a)
    lu = next((u for u in la if u["variant"] == inv[1]), None)
    if lu is None or not close(inv[0], want / sc(lu), backend):
        bad("C11/derived-operators", "inverse operator", inv, "magnitude %s" % want)


# ---------------------------------------------------------------------------
def run_chunk(args):
    ci, chunk, backend = args
    d = e2.gen_dir("c11-%s-%03d" % (backend, ci))
    src = os.path.join(d, "main.rs")
    lines = RUST_HEADER.split("\n")
    ranges = []
    for n, dfn in chunk:
        lo = len(lines) + 1
        lines += render_group(dfn)
        lines.append(dump_fn(dfn, n))
        ranges.append((n, lo, len(lines)))
    lines.append("fn main() {")
    for n, _ in chunk:
        lines.append('    println!("{}", serde_json::to_string(&d_%d()).unwrap());' % n)
    lines.append("}")
    with open(src, "w", encoding="utf-8") as f:
        f.write("\n".join(lines) + "\n")
    binp = os.path.join(d, "main")
    rc, diags = rustc_bin(src, backend, binp)
    errs = [x for x in diags if x["level"] == "error"]
    if rc != 0:
        out = []
        for x in errs:
            owner = next((n for n, lo, hi in ranges if any(lo <= a <= hi for a, _ in x["lines"])), None)
            out.append((owner, x))
        return {"compile_errors": out, "records": {}}
    p = subprocess.run([binp], stdout=subprocess.PIPE, stderr=subprocess.PIPE, text=True)
    if p.returncode != 0:
        return {"compile_errors": [], "records": {}, "run_failed": p.stderr[-2000:]}
    recs = {}
    for (n, _), line in zip(chunk, p.stdout.splitlines()):
        recs[n] = json.loads(line)
    os.unlink(binp)
    return {"compile_errors": [], "records": recs}


def rustc_bin(src, backend, out):
    art = e2.artifacts(backend)
    cmd = ["rustc", "--edition", "2021", "--error-format=json", "--cap-lints", "allow", "-L", "dependency=" + art["deps"],
           "--extern", "quantities=" + art["quantities"], "--extern", "serde_json=" + art["serde_json"],
           "--crate-type", "bin", "-C", "opt-level=0", "-C", "debuginfo=0", "-C", "codegen-units=4", "-o", out]
    if backend == "dec":
        cmd += ["--cfg", "dec"]
    cmd.append(src)
    p = subprocess.run(cmd, stdout=subprocess.PIPE, stderr=subprocess.PIPE, text=True)
    diags = []
    base = os.path.basename(src)
    for line in p.stderr.splitlines():
        try:
            m = json.loads(line)
        except ValueError:
            continue
        if m.get("level") != "error" or m.get("message", "").startswith("aborting due to"):
            continue
        lines = []
        for sp in m.get("spans", []):
            if not sp.get("is_primary"):
                continue
            cur = sp
            while cur.get("expansion") and cur["expansion"].get("span"):
                cur = cur["expansion"]["span"]
            if os.path.basename(cur.get("file_name", "")) == base:
                lines.append((cur["line_start"], cur["line_end"]))
        diags.append({"level": "error", "code": (m.get("code") or {}).get("code"), "message": m.get("message", "")[:300], "lines": lines})
    return p.returncode, diags


def run(prop, tier, seed, t0):
    catalogue.generate(common.BUILD)
    defs = enumerate_definitions(tier)
    indexed = list(enumerate(defs))
    totals = {"definitions": 0, "records_checked": 0, "ref": 0, "noref": 0, "single": 0, "derived": 0,
              "permutation_groups": 0, "permutation_groups_identical": 0}
    violations = {}
    samples = []

    def add_violation(cls, backend, dfn, case, got, want):
        key = "%s@%s" % (cls, backend)
        v = violations.setdefault(key, {
            "property": "C11", "key": key, "count": 0, "engine": "E2", "backend": backend, "tier": tier,
            "program": "\n".join(["// definition whose generated code deviates from its declaration:"] + ["// " + l for l in render_group(dfn)]
                                 + ["#![allow(unused)]", "use quantities::prelude::*;"] + render_group(dfn)),
            "expect": "accept", "always": True,
            "example": {"case": case, "observed": got, "expected": want}})
        v["count"] += 1

    for backend in ("f64", "dec"):
        e2.artifacts(backend)
        chunks = [(ci, indexed[i:i + CHUNK], backend) for ci, i in enumerate(range(0, len(indexed), CHUNK))]
        results = e2.parallel(run_chunk, chunks, workers=16)
        records = {}
        for (ci, chunk, _), res in zip(chunks, results):
            if res.get("run_failed"):
                raise Machinery("C11 generated program crashed [%s chunk %d]: %s" % (backend, ci, res["run_failed"]))
            for owner, x in res["compile_errors"]:
                dfn = defs[owner] if owner is not None else chunk[0][1]
                add_violation("C11/generated-code-does-not-compile", backend, dfn,
                              {"definition": render_group(dfn) if owner is not None else "unattributed"},
                              "%s: %s" % (x["code"], x["message"]), "a well-formed definition compiles and offers the full set of items")
            records.update(res["records"])
        for n, dfn in indexed:
            totals["definitions"] += 1
            totals[dfn["kind"]] += 1
            if dfn.get("derived"):
                totals["derived"] += 1
            rec = records.get(n)
            if rec is None:
                continue
            problems = []
            check_definition(dfn, rec, backend, problems)
            totals["records_checked"] += 1
            for cls, case, got, want in problems:
                add_violation(cls, backend, dfn, case, got, want)
            if n in (5, 400, len(defs) - 1) and backend == "f64":
                samples.append({"definition": render_group(dfn), "dump": {"units": [u["v"] for u in rec["reg"]["units"]],
                                                                           "corpus": {k: rec["corpus"][k] for k in ("add", "display")}}})
        # differential clause: all attribute permutations of one declaration give the same observable dump,
        # except for the relative order of units that share a scale
        groups = {}
        for n, dfn in indexed:
            if dfn["kind"] == "ref" and not dfn.get("derived") and n in records:
                pat = (tuple(dfn["combo"]), dfn["doc_pos"] is None, tuple(sorted(u["prefix"] or "" for u in dfn["units"])), dfn["ref"]["prefix"] or "")
                groups.setdefault(pat, []).append(n)
        for pat, members in groups.items():
            if len(members) < 2:
                continue
            totals["permutation_groups"] += 1
            norm = set()
            for n in members:
                rec = records[n]
                t = defs[n]["tag"]
                units = sorted(json.dumps([u, s], sort_keys=True, ensure_ascii=False).replace(t, "T").replace(t.upper(), "T").replace(t.lower(), "T")
                               for u, s in zip(rec["reg"]["units"], rec["ref"]["scales"]))
                # values independent of unit order: the set of units with their attributes and scales
                norm.add(json.dumps([[json.loads(x)[0]["name"], json.loads(x)[0]["sym"], json.loads(x)[0]["prefix"], json.loads(x)[1]["scale"]] for x in units], ensure_ascii=False))
            if len(norm) == 1:
                totals["permutation_groups_identical"] += 1
            else:
                add_violation("C11/permutation-changes-observable-behaviour", backend, defs[members[0]],
                              {"group": list(pat[0]), "definitions": [defs[n]["name"] for n in members]}, "%d distinct dumps" % len(norm), "1")
    if not violations and (totals["definitions"] < 2 * 600 or totals["records_checked"] < totals["definitions"] * 0.9):
        raise Machinery("vacuity guard: C11 explored too little: %s" % totals)
    coverage = {
        "exhaustive": True,
        "rule": "every definition of the bounded grammar G: with reference unit and n in {1,2,3} further units, scale literals "
                "from {0.001, 0.5, 1, 1.0, 2.5, 1000, 1000., 1e3} (n <= 2) / {0.5, 1, 1000, 1000.} (n = 3) incl. ties with the "
                "reference unit and between spellings of one value, ALL (n+1)! attribute permutations (quick: 3 for n = 3), plus "
                "definitions with 24 further units full of ties in 3-4 scrambled attribute orders (beyond the size below "
                "which unstable sorts happen to be stable), "
                "prefix / doc-string / doc-comment patterns rotated through 4 variants (thorough: full product for n <= 2); "
                "without reference unit: all sequences of 1..3 identifiers from {Zeta, Alpha, Mid_Word, beta_low} with and "
                "without docs (single-unit path included); derived: result shapes A*B, A/B, A*A, AmountT/A x 6 result "
                "definitions x operand scale sets. Each definition is compiled with the real macro and dumps at run time: "
                "names, symbols (non-ASCII), prefixes, scales (compared with the literal's exact value in the amount type), "
                "iteration order (ties by attribute order), constants, lookups, REF_UNIT, constructors, + - /, convert, "
                "comparison, scalar operators, Display, derived operators in 4 ownership forms on natural and fitted units, "
                "inverse operator - all compared with the Python model of the declaration; all permutations of one "
                "declaration must agree up to the order of equal-scale units",
        "states": totals["definitions"], "transitions": totals["records_checked"],
        "traces_validated_against_impl": totals["records_checked"],
        "evaluations": totals["definitions"], "distinct_nontrivial": totals["records_checked"],
        "programs": totals["definitions"], "disagreements_checked": totals["records_checked"],
        "counters": totals, "samples": samples[:3] or [{"note": "no record"}],
    }
    assumptions = ["Python model of the macro in lib/defgen.py (casing, ordering, path selection) written from the documentation",
                   "f64 operator results are compared with 1e-12 relative tolerance, Decimal results exactly (the corpus is chosen so that every Decimal result is exact)"]
    return common.finish(prop, tier, "model_checking", coverage, assumptions, list(violations.values()), t0, seed)
