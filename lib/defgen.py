"""Bounded grammar of #[quantity] definitions (DESIGN.md 5.11 / 5.12): representation, rendering and the
Python model of what the macro must generate."""
import itertools
from fractions import Fraction

import catalogue

PREFIX_EXP = {"QUECTO": -30, "RONTO": -27, "YOCTO": -24, "ZEPTO": -21, "ATTO": -18, "FEMTO": -15, "PICO": -12, "NANO": -9,
              "MICRO": -6, "MILLI": -3, "CENTI": -2, "DECI": -1, "NONE": 0, "DECA": 1, "HECTO": 2, "KILO": 3, "MEGA": 6,
              "GIGA": 9, "TERA": 12, "PETA": 15, "EXA": 18, "ZETTA": 21, "YOTTA": 24, "RONNA": 27, "QUETTA": 30}


def tag(n):
    """unique capitalised 3-letter word for definition n (identifier convention: words of >= 2 letters)"""
    a, b = divmod(n, 26)
    a, c = divmod(a, 26)
    return "X" + chr(97 + (a % 26)) + chr(97 + c) + chr(97 + b) if a else "X" + chr(97 + c) + chr(97 + b)


def unit(uid, sym, lit=None, prefix=None, doc=None):
    return {"id": uid, "sym": sym, "lit": lit, "prefix": prefix, "doc": doc}


def render_attr(kind, u, with_lit=True, raw=None):
    if raw is not None:
        return raw
    args = [u["id"], catalogue.rust_str(u["sym"])]
    if u.get("prefix"):
        args.append(u["prefix"])
    if with_lit and u.get("lit") is not None:
        args.append(u["lit"])
    if u.get("doc"):
        args.append(catalogue.rust_str(u["doc"]))
    return "#[%s(%s)]" % (kind, ", ".join(args))


def render(d):
    """Source lines of one definition.  d: name, derived, ref, units, order (indices into [ref]+units or units),
    doc_pos (position of a /// comment among the attributes or None), item (text of the item line)."""
    lines = ["#[quantity(%s %s %s)]" % tuple(d["derived"]) if d.get("derived") else "#[quantity]"]
    attrs = []
    members = ([("ref_unit", d["ref"])] if d.get("ref") else []) + [("unit", u) for u in d["units"]]
    order = d.get("order") or list(range(len(members)))
    for i in order:
        kind, u = members[i]
        attrs.append(render_attr(kind, u))
    if d.get("doc_pos") is not None:
        attrs.insert(min(d["doc_pos"], len(attrs)), "/// Documentation of %s." % d["name"])
    lines += attrs
    lines.append(d.get("item") or "pub struct %s {}" % d["name"])
    return lines


def attr_order_units(d):
    """units in the order the macro collects them: #[unit] attributes in source order"""
    members = ([("ref_unit", d["ref"])] if d.get("ref") else []) + [("unit", u) for u in d["units"]]
    order = d.get("order") or list(range(len(members)))
    return [members[i][1] for i in order if members[i][0] == "unit"]


def expected_registry(d):
    """What the statement of C11 / C09 prescribes for a well-formed definition: list of unit records in iteration
    order, each with variant, const, name, sym, prefix, scale (Fraction or None)."""
    units = []
    for u in attr_order_units(d):
        units.append(dict(u, scale=(catalogue.lit_value(u["lit"]) if d.get("ref") else None), is_ref=False))
    if d.get("ref"):
        r = dict(d["ref"], lit=None, scale=Fraction(1), is_ref=True)
        units = sorted([r] + units, key=lambda x: float(x["scale"]))  # stable; the macro sorts by f64 value
    else:
        units = sorted(units, key=lambda x: catalogue.unit_name(x["id"]).encode("utf-8"))
    out = []
    for u in units:
        v = catalogue.upper_camel(u["id"])
        out.append({"id": u["id"], "variant": v, "const": catalogue.upper_snake(v), "name": catalogue.unit_name(u["id"]),
                    "sym": u["sym"], "prefix": u.get("prefix"), "scale": u["scale"], "is_ref": u["is_ref"], "lit": u.get("lit")})
    return out


# ---------------------------------------------------------------------------
# the grammar G of well-formed definitions
LITS_FULL = ["0.001", "0.5", "1", "1.0", "2.5", "1000", "1000.", "1e3"]
LITS_SMALL = ["0.5", "1", "1000", "1000."]
NOREF_IDS = ["Zeta", "Alpha", "Mid_Word", "beta_low", "Pop2"]
SYMS = ["u", "µx", "m²", "kw", "°d", "q/s"]


def pattern(k, n_members):
    """prefix / doc-string / doc-comment patterns, rotated through 6 variants; 'prefix' = both reference unit and units,
    'prefix_ref' / 'prefix_units' = separately (a prefixed unit beside an unprefixed reference unit and vice versa)"""
    pats = {
        0: {"prefix_ref": False, "prefix_units": False, "doc": False, "doc_pos": None},
        1: {"prefix_ref": True, "prefix_units": True, "doc": False, "doc_pos": n_members},
        2: {"prefix_ref": False, "prefix_units": False, "doc": True, "doc_pos": 0},
        3: {"prefix_ref": True, "prefix_units": True, "doc": True, "doc_pos": 1},
        4: {"prefix_ref": False, "prefix_units": True, "doc": False, "doc_pos": None},
        5: {"prefix_ref": True, "prefix_units": False, "doc": True, "doc_pos": None},
    }
    p = dict(pats[k % 6])
    p["prefix"] = p["prefix_ref"] and p["prefix_units"]
    return p


PREFIX_FOR = {"0.001": "MILLI", "1000": "KILO", "1000.": "KILO", "1e3": "KILO", "1": "NONE", "1.0": "NONE"}


def ref_definitions(tier):
    """with reference unit: n in {1,2,3} further units, literals from LITS, all attribute permutations"""
    defs = []
    k = 0
    for n in (1, 2, 3):
        lits = LITS_FULL if n <= 2 else LITS_SMALL
        for combo in itertools.product(lits, repeat=n):
            members = n + 1
            perms = list(itertools.permutations(range(members)))
            if tier == "quick" and n == 3:
                # reduced: identity, reversed, and the rotation that puts #[ref_unit] last
                perms = [perms[0], perms[-1], tuple(list(range(1, members)) + [0])]
            pats = range(6) if (tier == "thorough" and n <= 2) else [None]
            for perm in perms:
                for pk in pats:
                    pat = pattern(k if pk is None else pk, members)
                    k += 1
                    us = []
                    for i, lit in enumerate(combo):
                        pre = PREFIX_FOR.get(lit) if pat["prefix_units"] else None
                        us.append(unit("Unit_%s" % "abc"[i].upper() + "x", SYMS[i + 1], lit, pre, "doc %d" % i if pat["doc"] else None))
                    ref = unit("Ref_Unit", SYMS[0], None, "NONE" if pat["prefix_ref"] else None, "reference" if pat["doc"] else None)
                    defs.append({"kind": "ref", "ref": ref, "units": us, "order": list(perm), "doc_pos": pat["doc_pos"],
                                 "combo": combo})
    if tier == "thorough":
        # n = 3 over the full literal set (512 combinations) in three attribute orders
        for combo in itertools.product(LITS_FULL, repeat=3):
            if all(c in LITS_SMALL for c in combo):
                continue
            for perm in ((0, 1, 2, 3), (3, 2, 1, 0), (1, 2, 3, 0)):
                pat = pattern(k, 4)
                k += 1
                us = []
                for i, lit in enumerate(combo):
                    pre = PREFIX_FOR.get(lit) if pat["prefix_units"] else None
                    us.append(unit("Unit_%s" % "abc"[i].upper() + "x", SYMS[i + 1], lit, pre, "doc %d" % i if pat["doc"] else None))
                ref = unit("Ref_Unit", SYMS[0], None, "NONE" if pat["prefix_ref"] else None, "reference" if pat["doc"] else None)
                defs.append({"kind": "ref", "ref": ref, "units": us, "order": list(perm), "doc_pos": pat["doc_pos"], "combo": combo})
    return defs


def big_ref_definitions(tier):
    """more than 20 units with many ties in scrambled declaration order: beyond the size below which the standard
    library's unstable sorts happen to be stable"""
    lits = ["1000", "0.5", "1", "0.001", "1000.", "2.5", "1.0", "0.5", "1e3", "0.001", "2.5", "1", "1000", "0.5", "1.0", "2.5",
            "0.001", "1e3", "0.5", "1", "1000.", "2.5", "0.001", "1.0"]
    defs = []
    n = len(lits)
    orders = [list(range(n + 1)), list(range(n, -1, -1)), list(range(7, n + 1)) + list(range(7))]
    if tier == "thorough":
        orders.append([(i * 7) % (n + 1) for i in range(n + 1)])
    for k, order in enumerate(orders):
        us = [unit("Unit_%s%sx" % (chr(65 + i // 13), chr(97 + i % 13)), "u%s%s" % (chr(97 + i // 13), chr(97 + i % 13)), lit) for i, lit in enumerate(lits)]
        ref = unit("Ref_Unit", SYMS[0])
        defs.append({"kind": "ref", "ref": ref, "units": us, "order": order, "doc_pos": None, "combo": ("big",) + tuple(lits)})
    return defs


def huge_ref_definitions(tier):
    """more than 32 units (the size up to which this toolchain's unstable sort still behaves stably), ties at many
    scales including ties with the reference unit declared before AND after it, in scrambled declaration orders"""
    lits = ["1000", "0.5", "250", "0.001", "1", "1e6", "0.25", "500", "2.5", "1000.", "0.125", "64", "1000000", "0.5", "8", "0.04", "3",
            "1e3", "0.25", "7.5", "0.001", "1.0", "12", "500.", "0.02", "2", "1e-3", "250", "0.75", "16", "1000000.", "0.2", "4",
            "0.0625", "36", "9", "0.3", "1.00", "5", "0.5", "1", "64.0", "2.50"]
    n = len(lits)
    orders = [list(range(n + 1)), list(range(n, -1, -1)), [(i * 13) % (n + 1) for i in range(n + 1)]]
    if tier == "thorough":
        orders += [[(i * 5 + 3) % (n + 1) for i in range(n + 1)], list(range(20, n + 1)) + list(range(20))]
    defs = []
    for order in orders:
        assert sorted(order) == list(range(n + 1))
        us = [unit("Unit_%s%sx" % (chr(65 + i // 13), chr(97 + i % 13)), "u%s%s" % (chr(97 + i // 13), chr(97 + i % 13)), lit) for i, lit in enumerate(lits)]
        defs.append({"kind": "ref", "ref": unit("Ref_Unit", SYMS[0]), "units": us, "order": order, "doc_pos": None, "combo": ("huge",) + tuple(lits)})
    return defs


LONG_LITS = ["0.017453292519943296", "0.514444444444444444", "0.30000000000000004", "0.000030517578125", "3.141592653589793238",
             "1234567.890123456789", "9007199254740993", "9007199254740993.0"]


def long_literal_definitions(tier):
    """scale literals with more significant digits than f64 holds (up to the 18 fractional digits of the Decimal
    back-end): the scale must be the literal's exact value IN THE AMOUNT TYPE.  `loose` tells the judge that sums
    and quotients over such scales are rounded by the amount type (only metadata is compared exactly)."""
    defs = []
    for lit in LONG_LITS:
        for perm in ((0, 1, 2, 3), (3, 1, 0, 2)):
            us = [unit("Unit_Ax", SYMS[1], lit), unit("Unit_Bx", SYMS[2], "1000"), unit("Unit_Cx", SYMS[3], "0.5")]
            defs.append({"kind": "ref", "ref": unit("Ref_Unit", SYMS[0]), "units": us, "order": list(perm), "doc_pos": None,
                         "combo": ("long", lit), "loose": True})
    for k in range(0, len(LONG_LITS) - 2, 2 if tier == "quick" else 1):
        combo = LONG_LITS[k:k + 3]
        us = [unit("Unit_%sx" % "ABC"[i], SYMS[i + 1], lit) for i, lit in enumerate(combo)]
        defs.append({"kind": "ref", "ref": unit("Ref_Unit", SYMS[0]), "units": us, "order": [2, 0, 3, 1], "doc_pos": None,
                     "combo": ("long",) + tuple(combo), "loose": True})
    return defs


def odd_name_definitions(tier):
    """quantity (struct) identifiers that are legal but not in upper-camel form"""
    defs = []
    for qname in ("RPM", "_Flow_Rate", "Co2e", "CPULoad", "Q12", "Qty_"):
        for kind in ("ref", "noref"):
            if kind == "ref":
                us = [unit("Unit_Ax", SYMS[1], "1000"), unit("Unit_Bx", SYMS[2], "0.5")]
                defs.append({"kind": "ref", "ref": unit("Ref_Unit", SYMS[0]), "units": us, "order": [1, 0, 2], "doc_pos": None,
                             "combo": ("qname", qname, kind), "qname": qname})
            else:
                us = [unit("Zeta", SYMS[1]), unit("Alpha", SYMS[2])]
                defs.append({"kind": "noref", "ref": None, "units": us, "order": None, "doc_pos": None, "combo": ("qname", qname, kind), "qname": qname})
    return defs


def tiny_ref_definitions(tier):
    """scales closer together than f64::EPSILON, in every declaration order (an ordering that compares with a
    tolerance would treat them as ties)"""
    defs = []
    lits = ["1e-16", "1e-17", "0.000000000000000001", "0.5"]
    for combo in itertools.permutations(lits, 3):
        for perm in ((0, 1, 2, 3), (3, 2, 1, 0)):
            us = [unit("Unit_%sx" % "ABC"[i], SYMS[i + 1], lit) for i, lit in enumerate(combo)]
            defs.append({"kind": "ref", "ref": unit("Ref_Unit", SYMS[0]), "units": us, "order": list(perm), "doc_pos": None,
                         "combo": ("tiny",) + combo})
    return defs


def noref_definitions(tier):
    defs = []
    # all units share one symbol: they are still different units
    for n in (2, 3):
        for ids in itertools.permutations(NOREF_IDS, n):
            defs.append({"kind": "noref", "ref": None, "units": [unit(i, "same") for i in ids], "order": None, "doc_pos": None,
                         "combo": ("dup",) + ids})
    for n in (1, 2, 3):
        for ids in itertools.permutations(NOREF_IDS, n):
            for with_doc in (False, True):
                us = [unit(i, SYMS[(j + 2) % len(SYMS)], None, None, "doc" if with_doc else None) for j, i in enumerate(ids)]
                defs.append({"kind": "single" if n == 1 else "noref", "ref": None, "units": us, "order": None,
                             "doc_pos": 0 if with_doc else None, "combo": ids})
    return defs


def uniquify(d, n):
    """give the definition and its units globally unique identifiers (unit constants live at module level)"""
    t = tag(n)
    d = dict(d)
    # the struct identifier: ordinarily <Tag>Qty; `qname` asks for a legal but unusual spelling (acronym, underscores,
    # digit followed by a lower-case letter) - the unit enum is documented to be named <struct identifier>Unit verbatim
    d["name"] = t + d.get("qname", "Qty")
    d["tag"] = t

    def ren(u):
        return dict(u, id="%s_%s" % (t, u["id"]) if not u["id"][0].islower() else "%s_%s" % (t.lower(), u["id"]))
    d["units"] = [ren(u) for u in d["units"]]
    if d.get("ref"):
        d["ref"] = ren(d["ref"])
    return d
