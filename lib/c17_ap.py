"""C17, second consumer configuration: the round-trip clause with serde_json built with `arbitrary_precision`
(harness/qv-serde-ap).  Built from /repo's working tree in its own target directories; one run per amount back-end."""
import json
import os
import subprocess

import common
from common import BUILD, HARNESS, Machinery


def probe(tier):
    counters = {"ap_round_trips": 0, "ap_units": 0}
    violations, samples = [], []
    for backend in ("f64", "dec"):
        env = common.env_offline()
        env["CARGO_TARGET_DIR"] = os.path.join(BUILD, "target-serde-ap-" + backend)
        cmd = ["cargo", "build", "--offline", "-p", "qv-serde-ap"] + (["--features", "dec"] if backend == "dec" else [])
        p = subprocess.run(cmd, cwd=HARNESS, env=env, stdout=subprocess.PIPE, stderr=subprocess.STDOUT, text=True)
        if p.returncode != 0:
            tail = "\n".join(l for l in p.stdout.splitlines() if not l.startswith("warning"))[-3000:]
            raise Machinery("building qv-serde-ap (%s) against /repo failed:\n%s" % (backend, tail))
        r = subprocess.run([os.path.join(env["CARGO_TARGET_DIR"], "debug", "qv-serde-ap")], stdout=subprocess.PIPE, stderr=subprocess.PIPE, text=True)
        if r.returncode != 0:
            raise Machinery("qv-serde-ap (%s) exited %s: %s" % (backend, r.returncode, r.stderr[-1500:]))
        doc = json.loads(r.stdout)
        counters["ap_round_trips"] += doc["round_trips"]
        counters["ap_units"] += doc["units"]
        if doc["violations"]:
            ex = doc["violations"][0]
            violations.append({
                "property": "C17", "key": "C17/value-round-trip/serde_json-arbitrary_precision@%s" % backend, "count": len(doc["violations"]),
                "engine": "E1", "backend": backend, "tier": tier, "command": "qv-serde-ap (%s)" % backend,
                "example": {"case": {"type": ex.get("type"), "op": ex.get("op"), "value": ex.get("value"), "serde_json": "feature arbitrary_precision"},
                            "observed": ex.get("observed", ""), "expected": "the identical unit and the bit-identical amount"}})
        samples.append({"backend": backend, "serde_json": "arbitrary_precision", "round_trips": doc["round_trips"]})
    if counters["ap_units"] < 2 * 100:
        raise Machinery("vacuity guard: qv-serde-ap explored %s" % counters)
    return counters, violations, samples
