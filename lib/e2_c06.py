"""C06 - dimensional type safety: every ordered pair of quantity types x operator, judged by rustc against the
closure of the declared derivations computed by the model."""
import itertools
import os
import time

import catalogue
import common
import e2
from common import Machinery

OPS = ["+", "-", "*", "/", "==", "<"]
AMT = "AmountT"


def admissible(types, derivations, comparable=None):
    """{(lhs, op, rhs): result type name or 'bool'} - the statement of C06, literally."""
    comparable = set(types) if comparable is None else comparable
    adm = {}
    for x in types:
        adm[(x, "+", x)] = x
        adm[(x, "-", x)] = x
        adm[(x, "/", x)] = AMT
        if x in comparable:
            adm[(x, "==", x)] = "bool"
            adm[(x, "<", x)] = "bool"
        if x != AMT:
            adm[(x, "*", AMT)] = x
            adm[(AMT, "*", x)] = x
            adm[(x, "/", AMT)] = x
    adm[(AMT, "*", AMT)] = AMT
    for (r, a, op, b) in derivations:
        for k, v in derived_keys(r, a, op, b).items():
            adm[k] = v
    return adm


def derived_keys(r, a, op, b):
    if op == "*":
        if a == b:
            return {(a, "*", a): r, (r, "/", a): a}
        return {(a, "*", b): r, (b, "*", a): r, (r, "/", b): a, (r, "/", a): b}
    return {(a, "/", b): r, (r, "*", b): a, (b, "*", r): a, (a, "/", r): b}


# in-place and remainder forms: nothing of the kind is generated on the pinned tree and the statement does not ask
# for them; it does forbid the dimensionally meaningless ones.  `a op= b` is meaningful only where `a op b` is
# admissible AND gives a's own type; `%` only between values of one type or by a number.
EXTRA_OPS = ["+=", "-=", "*=", "/=", "%", "%="]


def extra_expect(adm, ta, op, tb):
    if op in ("%", "%="):
        return "either" if (tb == ta or tb == AMT) else "reject"
    return "either" if adm.get((ta, op[0], tb)) == ta else "reject"


def program_line(n, ta, tb, tres, op, paths, expect="accept"):
    if op.endswith("=") and op not in ("==",):
        return "pub fn p%d(mut a: %s, b: %s) { a %s b; }" % (n, paths[ta], paths[tb], op)
    if expect in ("reject", "either"):
        # no type ascription: the program must be rejected because no such operator exists, whatever its result
        return "pub fn p%d(a: %s, b: %s) { let _r = a %s b; }" % (n, paths[ta], paths[tb], op)
    return "pub fn p%d(a: %s, b: %s) { let _r: %s = a %s b; }" % (n, paths[ta], paths[tb], paths.get(tres, tres), op)


def build_programs(types, adm, paths, forced_reject=()):
    """All |types|^2 x 6 programs with their expected verdicts."""
    progs = []
    for ta, tb in itertools.product(types, repeat=2):
        for op in OPS:
            res = adm.get((ta, op, tb))
            if (ta, tb) in forced_reject:
                res = None
            progs.append({"lhs": ta, "op": op, "rhs": tb, "expect": "accept" if res else "reject",
                          "result": res or ta})
        for op in EXTRA_OPS:
            exp = "reject" if (ta, tb) in forced_reject else extra_expect(adm, ta, op, tb)
            progs.append({"lhs": ta, "op": op, "rhs": tb, "expect": exp, "result": ta})
    return progs


def judge_batch(name, header, progs, paths, backend, tier, stats, violations, footer_defs=None):
    """Compile all programs as one crate; verdict per line."""
    d = e2.gen_dir("c06-%s-%s" % (name, backend))
    src = os.path.join(d, "batch.rs")
    lines = ["#![allow(unused, non_snake_case)]"] + header
    first = len(lines) + 1
    for n, p in enumerate(progs):
        p["line"] = first + n
        p["text"] = program_line(n, p["lhs"], p["rhs"], p["result"], p["op"], paths, p["expect"])
        lines.append(p["text"])
    with open(src, "w", encoding="utf-8") as f:
        f.write("\n".join(lines) + "\n")
    rc, diags = e2.rustc_check(src, backend)
    by_line = {}
    stray = []
    for dg in diags:
        if dg["level"] != "error":
            continue
        if dg["line"] is None or dg["line"] < first:
            stray.append(dg)
        else:
            by_line.setdefault(dg["line"], []).append(dg)
    located = [x for x in stray if x["line"] is not None]
    if located:
        # an error inside the (well-formed, conflict-free by the model) declarations themselves: the declared
        # derivations do not type-check as a whole, so no per-program verdict can be read from this crate
        x = located[0]
        violations.append({
            "property": "C06", "key": "C06/declared-derivations-rejected@%s" % backend, "count": 1, "engine": "E2", "backend": backend,
            "tier": tier, "program": "\n".join(["#![allow(unused, non_snake_case)]"] + header), "expect": "accept",
            "example": {"case": {"universe": name, "declarations": header[1:]}, "observed": "%s: %s" % (x["code"], x["message"][:200]),
                        "expected": "the declarations compile (the model finds no two derivations generating the same operator)"}})
        return src
    if stray:
        raise Machinery("C06 %s[%s]: unattributable compile error: %s" % (name, backend, stray[0]))
    for p in progs:
        errs = by_line.get(p["line"], [])
        stats["programs"] += 1
        got = "reject" if errs else "accept"
        if p["expect"] == "either":
            # meaningful but not required (in-place forms, remainders): whatever the implementation does is fine
            stats["not_required"] = stats.get("not_required", 0) + 1
            continue
        if p["expect"] == "accept":
            stats["expected_accept"] += 1
        else:
            stats["expected_reject"] += 1
        if got != p["expect"]:
            cls = "C06/accepted-but-not-dimensionally-meaningful" if got == "accept" else "C06/rejected-but-admissible"
            violations.append(mk_violation(cls, name, backend, tier, header, p, got, errs))
        elif got == "reject":
            codes = {e["code"] for e in errs}
            stats["codes"].update(codes)
            if not codes & {"E0277", "E0369", "E0308", "E0368", "E0271"}:
                violations.append(mk_violation("C06/unexpected-error-kind", name, backend, tier, header, p, got, errs))
    return src


def mk_violation(cls, name, backend, tier, header, p, got, errs):
    return {
        "property": "C06", "key": "%s@%s" % (cls, backend), "count": 1, "engine": "E2", "backend": backend, "tier": tier,
        "program": "\n".join(["#![allow(unused, non_snake_case)]"] + header + [p["text"]]),
        "expect": p["expect"],
        "example": {"case": {"universe": name, "program": p["text"]}, "observed": "%s %s" % (got, [e["code"] for e in errs]),
                    "expected": "%s (%s %s %s -> %s)" % (p["expect"], p["lhs"], p["op"], p["rhs"],
                                                         p["result"] if p["expect"] == "accept" else "no such operator")},
    }


# ---------------------------------------------------------------------------
# derivation graphs
def graph_source(defs):
    """#[quantity] source for base types P, Q and the derived types of one graph; returns (lines, line ranges)."""
    lines = ["use quantities::prelude::*;"]
    ranges = {}

    def emit(name, attrs):
        start = len(lines) + 2  # header line '#![allow]' is line 1
        lines.extend(attrs)
        lines.append("pub struct %s {}" % name)
        ranges[name] = (start, len(lines) + 1)

    emit("Pq", ["#[quantity]", '#[ref_unit(Pbase, "pb")]', '#[unit(Pkilo, "pk", 1000)]'])
    emit("Qq", ["#[quantity]", '#[ref_unit(Qbase, "qb")]', '#[unit(Qmilli, "qm", 0.001)]'])
    # bystanders: a single-unit quantity (it has no comparison operators at all) and one without reference unit
    emit("Sq", ["#[quantity]", '#[unit(Sole_Unit, "su")]'])
    emit("Nq", ["#[quantity]", '#[unit(Nleft, "nl")]', '#[unit(Nright, "nr")]'])
    for i, (r, a, op, b) in enumerate(defs):
        tag = r.lower()
        emit(r, ["#[quantity(%s %s %s)]" % (a, op, b), '#[ref_unit(%sbase, "%sb")]' % (r, tag),
                 '#[unit(%skilo, "%sk", 1000)]' % (r, tag)])
    return lines, ranges


def shapes_over(pool):
    sh = [(x, "*", x) for x in pool]
    sh += [(x, "*", y) for x, y in itertools.combinations(pool, 2)]
    sh += [(x, "/", y) for x, y in itertools.permutations(pool, 2)]
    sh += [(AMT, "/", x) for x in pool]
    return sh


def all_graphs(tier="quick"):
    shapes1 = [("Pq", "*", "Pq"), ("Pq", "*", "Qq"), ("Pq", "/", "Qq"), ("Qq", "/", "Pq"), (AMT, "/", "Pq")]
    graphs = []
    for s1 in shapes1:
        d1 = ("Da",) + s1
        graphs.append([d1])
        for s2 in shapes_over(["Pq", "Qq", "Da"]):
            g2 = [d1, ("Db",) + s2]
            graphs.append(g2)
            # thorough: every conflict-free two-derivation graph is extended by every third derivation
            if tier == "thorough" and not graph_conflict(g2):
                for s3 in shapes_over(["Pq", "Qq", "Da", "Db"]):
                    graphs.append(g2 + [("Dc",) + s3])
    return graphs


def graph_conflict(defs):
    """Do two derivations of the graph generate the same operator implementation (=> E0119)?"""
    seen = {}
    for (r, a, op, b) in defs:
        for k in derived_keys(r, a, op, b):
            if k in seen:
                return True
            seen[k] = r
    # an operator that coincides with a built-in one of the same type pair
    base = admissible(["Pq", "Qq", "Sq", "Nq", AMT] + [d[0] for d in defs], [])
    return any(k in base for k in seen)


def run_graph(args):
    gi, defs, backend, tier = args
    stats = {"programs": 0, "expected_accept": 0, "expected_reject": 0, "codes": set()}
    violations = []
    types = ["Pq", "Qq"] + [d[0] for d in defs] + ["Sq", "Nq", AMT]
    comparable = set(types) - {"Sq"}
    paths = {t: t for t in types}
    paths[AMT] = "quantities::AmountT"
    header, ranges = graph_source(defs)
    name = "graph%02d[%s]" % (gi, "; ".join("%s=%s%s%s" % d for d in defs))
    if graph_conflict(defs):
        # the whole crate must be rejected, with E0119 located at a derived definition
        d = e2.gen_dir("c06-graph%02d-%s" % (gi, backend))
        src = os.path.join(d, "graph.rs")
        with open(src, "w", encoding="utf-8") as f:
            f.write("\n".join(["#![allow(unused, non_snake_case)]"] + header) + "\n")
        rc, diags = e2.rustc_check(src, backend)
        errs = [x for x in diags if x["level"] == "error"]
        derived_lines = [ranges[dd[0]] for dd in defs]
        located = any(x["code"] == "E0119" and x["line"] is not None and any(lo <= x["line"] <= hi for lo, hi in derived_lines) for x in errs)
        stats["programs"] += 1
        stats["expected_reject"] += 1
        stats["conflicting_graphs"] = 1
        if not located:
            violations.append({
                "property": "C06", "key": "C06/conflicting-derivations-not-rejected@%s" % backend, "count": 1, "engine": "E2",
                "backend": backend, "tier": tier, "program": "\n".join(["#![allow(unused, non_snake_case)]"] + header),
                "expect": "reject",
                "example": {"case": {"graph": name}, "observed": "%d errors: %s" % (len(errs), [e["code"] for e in errs][:5]),
                            "expected": "E0119 at a derived definition"}})
        return stats, violations
    adm = admissible(types, defs, comparable)
    progs = build_programs(types, adm, paths)
    judge_batch("graph%02d" % gi, header, progs, paths, backend, tier, stats, violations)
    stats["graphs_explored"] = 1
    for v in violations:
        v["example"]["case"]["graph"] = name
    return stats, violations


def run_modules(backend, tier, stats, violations):
    """Two systems of measure in two modules of ONE crate, with the same type names and the same derivations: every
    declared operator must exist in BOTH modules (expansion state carried from one declaration to the next would drop
    the second), and nothing may combine types across the modules."""
    header = []
    types, paths, derivs = [], {}, []
    for mod in ("metric", "nautical"):
        header.append("pub mod %s {" % mod)
        header.append("    use quantities::prelude::*;")
        for name, attrs in (("Pq", ["#[quantity]", '#[ref_unit(Pbase, "pb")]', '#[unit(Pkilo, "pk", 1000)]']),
                            ("Qq", ["#[quantity]", '#[ref_unit(Qbase, "qb")]', '#[unit(Qmilli, "qm", 0.001)]']),
                            ("Da", ["#[quantity(Pq * Qq)]", '#[ref_unit(Dabase, "dab")]', '#[unit(Dakilo, "dak", 1000)]']),
                            ("Db", ["#[quantity(Pq / Qq)]", '#[ref_unit(Dbbase, "dbb")]', '#[unit(Dbkilo, "dbk", 1000)]']),
                            ("Dc", ["#[quantity(Pq * Pq)]", '#[ref_unit(Dcbase, "dcb")]', '#[unit(Dckilo, "dck", 1000)]'])):
            header += ["    " + a for a in attrs] + ["    pub struct %s {}" % name]
            types.append("%s.%s" % (mod, name))
            paths["%s.%s" % (mod, name)] = "%s::%s" % (mod, name)
        header.append("}")
        derivs += [("%s.Da" % mod, "%s.Pq" % mod, "*", "%s.Qq" % mod), ("%s.Db" % mod, "%s.Pq" % mod, "/", "%s.Qq" % mod),
                   ("%s.Dc" % mod, "%s.Pq" % mod, "*", "%s.Pq" % mod)]
    types.append(AMT)
    paths[AMT] = "quantities::AmountT"
    adm = admissible(types, derivs)
    progs = build_programs(types, adm, paths)
    judge_batch("modules", header, progs, paths, backend, tier, stats, violations)
    stats["module_universe_programs"] = len(progs)
    return header, progs


# ---------------------------------------------------------------------------
def run(prop, tier, seed, t0):
    model = catalogue.generate(common.BUILD)
    main = [t for t in model["types"] if t["universe"] == "main"]
    astro = [t for t in model["types"] if t["universe"] == "astro"]
    totals = {"programs": 0, "expected_accept": 0, "expected_reject": 0, "codes": set(), "graphs_explored": 0,
              "conflicting_graphs": 0, "single_program_compilations": 0}
    violations = []
    samples = []
    by_backend = {}
    for backend in ("f64", "dec"):
        e2.artifacts(backend)
        st = {"programs": 0, "expected_accept": 0, "expected_reject": 0, "codes": set()}
        # universe 1: the catalogue
        names = [t["name"] for t in main] + [AMT]
        paths = {t["name"]: "%s::%s" % (t["path"], t["name"]) for t in main}
        paths[AMT] = "quantities::AmountT"
        derivs = [(t["name"],) + tuple(t["derived"]) for t in main if t["derived"]]
        adm = admissible(names, derivs)
        progs = build_programs(names, adm, paths)
        judge_batch("catalogue", [], progs, paths, backend, tier, st, violations)
        samples.append({"backend": backend, "program": progs[17]["text"], "expected": progs[17]["expect"]})
        accepted = [p for p in progs if p["expect"] == "accept"]
        samples.append({"backend": backend, "program": accepted[-1]["text"], "expected": "accept"})
        all_progs = [("catalogue", [], progs)]
        if backend == "f64":
            # universe 2: the astronomical crate; universe 3: every cross-crate pair (all rejected)
            anames = ["astro." + t["name"] for t in astro] + [AMT]
            apaths = {"astro." + t["name"]: "astronomical_quantities::" + t["name"] for t in astro}
            apaths[AMT] = "quantities::AmountT"
            aderivs = [("astro." + t["name"], "astro." + t["derived"][0], t["derived"][1], "astro." + t["derived"][2]) for t in astro if t["derived"]]
            aprogs = build_programs(anames, admissible(anames, aderivs), apaths)
            judge_batch("astro", [], aprogs, apaths, backend, tier, st, violations)
            cpaths = dict(paths)
            cpaths.update(apaths)
            cprogs = []
            for m in [t["name"] for t in main]:
                for a in ["astro." + t["name"] for t in astro]:
                    for (x, y) in ((m, a), (a, m)):
                        for op in OPS + EXTRA_OPS:
                            cprogs.append({"lhs": x, "op": op, "rhs": y, "expect": "reject", "result": x})
            judge_batch("cross-crate", [], cprogs, cpaths, backend, tier, st, violations)
            all_progs += [("astro", [], aprogs), ("cross-crate", [], cprogs)]
        # universe 4: the same names and derivations declared twice, in two modules of one crate
        mheader, mprogs = run_modules(backend, tier, st, violations)
        all_progs.append(("modules", mheader, mprogs))
        # derivation graphs
        graphs = all_graphs(tier)
        results = e2.parallel(run_graph, [(gi, g, backend, tier) for gi, g in enumerate(graphs)])
        for gst, gviol in results:
            for k in ("programs", "expected_accept", "expected_reject"):
                st[k] += gst[k]
            st["not_required"] = st.get("not_required", 0) + gst.get("not_required", 0)
            st["codes"] |= gst["codes"]
            st["graphs_explored"] = st.get("graphs_explored", 0) + gst.get("graphs_explored", 0)
            st["conflicting_graphs"] = st.get("conflicting_graphs", 0) + gst.get("conflicting_graphs", 0)
            violations += gviol
        # thorough: a batch artefact cannot hide or fake a verdict - every rejected program compiled on its own,
        # the accepted set as one crate that must compile clean
        if tier == "thorough":
            for uname, header, progs in all_progs:
                upaths = dict(paths)
                if backend == "f64":
                    upaths.update(apaths)
                d = e2.gen_dir("c06-single-%s-%s" % (uname, backend))
                acc = [p for p in progs if p["expect"] == "accept"]
                src = os.path.join(d, "accepted.rs")
                with open(src, "w", encoding="utf-8") as f:
                    f.write("\n".join(["#![allow(unused, non_snake_case)]"] + header + [p["text"] for p in acc]) + "\n")
                rc, diags = e2.rustc_check(src, backend)
                if rc != 0 and acc:
                    violations.append(mk_violation("C06/accepted-set-does-not-compile", uname, backend, tier, header, acc[0], "reject", [x for x in diags if x["level"] == "error"][:3]))

                def single(ip):
                    i, p = ip
                    s = os.path.join(d, "r%d.rs" % i)
                    with open(s, "w", encoding="utf-8") as f:
                        f.write("\n".join(["#![allow(unused, non_snake_case)]"] + header + [p["text"]]) + "\n")
                    rc1, dg = e2.rustc_check(s, backend)
                    os.unlink(s)
                    return rc1, dg
                rej = [p for p in progs if p["expect"] == "reject"]
                outs = e2.parallel(single, list(enumerate(rej)))
                st["single_program_compilations"] = st.get("single_program_compilations", 0) + len(rej)
                for p, (rc1, dg) in zip(rej, outs):
                    if rc1 == 0:
                        violations.append(mk_violation("C06/accepted-but-not-dimensionally-meaningful", uname + "/alone", backend, tier, header, p, "accept", []))
        by_backend[backend] = {k: (sorted(x for x in v if x) if isinstance(v, set) else v) for k, v in st.items()}
        for k, v in st.items():
            if isinstance(v, set):
                totals[k] |= v
            else:
                totals[k] = totals.get(k, 0) + v
    # vacuity guards
    if not violations and (totals["programs"] < 2 * 1350 + 150 + 672 or totals["expected_accept"] < 200 or totals["graphs_explored"] < 20):
        raise Machinery("vacuity guard: C06 explored too little: %s" % {k: v for k, v in totals.items() if k != "codes"})
    # merge violation classes
    merged = {}
    for v in violations:
        m = merged.setdefault(v["key"], dict(v, count=0))
        m["count"] += 1
    coverage = {
        "exhaustive": True,
        "rule": "all 15 x 15 x 6 = 1350 programs `let _r: T = a OP b;` over the 14 catalogue types and AmountT, OP in "
                "{+,-,*,/,==,<} (both back-ends); the same for the 4 astronomical types and AmountT (150) and all 672 "
                "cross-crate pairs (f64); and every derivation graph over two base types and AmountT with one or two "
                "derived types (first in {P*P, P*Q, P/Q, Q/P, AmountT/P}, second in all 15 shapes over {P, Q, D1}: 80 "
                "graphs, each with a single-unit and a no-reference-unit bystander type; thorough: every conflict-free one of them extended by a third derivation in all 26 shapes over "
                "{P, Q, D1, D2}), each with its full |types|^2 x 6 program set, or - if two derivations generate the same operator - "
                "rejected as a whole with E0119 at a derived definition. Expected verdict and result type come from the "
                "model's closure of the declared derivations; verdict per program = presence of an error whose primary "
                "span (outermost expansion) is on the program's line. thorough: every rejected catalogue/astro/cross "
                "program is also compiled alone, the accepted set as one crate. Further program forms: the in-place and "
                "remainder operators (+= -= *= /= % %=), which must be rejected wherever they are dimensionally meaningless; a "
                "crate with two modules that declare the same type names and derivations (each module must have all its "
                "operators, nothing may combine the modules)",
        "states": totals["programs"], "transitions": totals["programs"] + totals.get("single_program_compilations", 0),
        "traces_validated_against_impl": totals["programs"],
        "evaluations": totals["programs"], "distinct_nontrivial": totals["expected_accept"] + totals["expected_reject"],
        "programs": totals["programs"], "disagreements_checked": totals["programs"],
        "counters": {k: (sorted(x for x in v if x) if isinstance(v, set) else v) for k, v in totals.items()},
        "by_backend": by_backend, "samples": samples[:6],
    }
    assumptions = ["rustc's type checker is the arbiter of 'type-checks'", "definition tables of data/catalogue.json (declared derivations)",
                   "diagnostics are attributed to a program by the line of their primary span (one program per line)"]
    return common.finish(prop, tier, "model_checking", coverage, assumptions, list(merged.values()), t0, seed)
