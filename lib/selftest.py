"""Differential self-test corpus for qv-model's exact arithmetic (expected values from Python's int / Fraction)."""
import json
import os
import struct
from fractions import Fraction

import common


def alphabet():
    vals = [Fraction(0), Fraction(1), Fraction(-1), Fraction(1, 3), Fraction(-5, 18), Fraction(254, 100), Fraction(10) ** 30,
            Fraction(1, 10 ** 30), Fraction(2) ** 1023, Fraction(1, 2 ** 1074), Fraction(45359237, 100000000), Fraction(1609344, 1000),
            Fraction(648000 * 10 ** 40, 31415926535897932384626433832795028841971), Fraction(123456789, 1000), Fraction(-174, 10),
            Fraction(2 ** 53 - 1), Fraction(1, 27068510), Fraction(299792458, 149597870700), Fraction(10 ** 17 - 1), Fraction(1, 10 ** 18)]
    for k in range(-20, 21, 4):
        vals.append(Fraction(7) * Fraction(10) ** k)
        vals.append(Fraction(-3) * Fraction(2) ** (k * 13))
    for n in (3, 7, 11, 13, 9999999967):
        vals.append(Fraction(n, 10 ** 9 + 7))
    return vals


def rs(fr):
    return "%d/%d" % (fr.numerator, fr.denominator)


def write():
    vals = alphabet()
    binary = []
    for a in vals:
        for b in vals:
            for op in ("add", "sub", "mul", "div"):
                if op == "div" and b == 0:
                    continue
                e = {"add": a + b, "sub": a - b, "mul": a * b, "div": (a / b) if b != 0 else None}[op]
                binary.append({"op": op, "a": rs(a), "b": rs(b), "expect": rs(e), "cmp": (a > b) - (a < b)})
    f64 = []
    for x in [0.0, 1.0, -1.0, 0.1, 0.3, 5e-324, 2.2250738585072014e-308, 1.7976931348623157e308, 1e300, -1e-300, 0.1 + 0.2, 123456.789,
              9007199254740991.0, 1.0000000000000002, 0.9999999999999999, 6.02214076e23, -273.15, 2.5e-5, 1e21, 4.35]:
        bits = struct.unpack(">Q", struct.pack(">d", x))[0]
        f64.append({"bits": "%016x" % bits, "expect": rs(Fraction(x))})
    ints = []
    big = [10 ** 40 + 7, -(2 ** 200) + 12345, 3, -7, 2 ** 64, 2 ** 64 - 1, 10 ** 18, 123456789012345678901234567890, 2 ** 32, 2 ** 32 + 1, -(10 ** 9)]
    for a in big:
        for b in big:
            q = abs(a) // abs(b)
            r = abs(a) - q * abs(b)
            q = q if (a < 0) == (b < 0) else -q
            r = r if a >= 0 else -r
            ints.append({"a": str(a), "b": str(b), "q": str(q), "r": str(r), "prod": str(a * b)})
    scaled = []
    for a in vals:
        for places in (0, 2, 18):
            num = a.numerator * 10 ** places
            fl = num // a.denominator
            dec = None
            for p in range(0, 41):
                if (a.numerator * 10 ** p) % a.denominator == 0:
                    v = a.numerator * 10 ** p // a.denominator
                    s = str(abs(v))
                    if p:
                        s = s.rjust(p + 1, "0")
                        s = s[:-p] + "." + s[-p:]
                    dec = ("-" if v < 0 else "") + s
                    break
            scaled.append({"a": rs(a), "places": places, "floor": str(fl), "decimal": dec})
    path = os.path.join(common.BUILD, "selftest.json")
    with open(path, "w") as f:
        json.dump({"binary": binary, "f64": f64, "int": ints, "scaled": scaled}, f)
    return path, len(binary) + len(f64) + len(ints) + len(scaled)
