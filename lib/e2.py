"""E2: program-space explorer plumbing: compile generated programs with rustc against the rlib that cargo
just built from /repo's current working tree, and read the verdict per program from the JSON diagnostics."""
import concurrent.futures as cf
import json
import os
import shutil
import subprocess

import common
from common import BUILD, HARNESS, Machinery

_ART = {}


def artifacts(backend):
    """Paths of the freshly built rlibs (quantities, astronomical_quantities) and the deps directory."""
    if backend in _ART:
        return _ART[backend]
    feats = "astro" if backend == "f64" else "dec"
    env = common.env_offline()
    env["CARGO_TARGET_DIR"] = common.target_dir(backend)
    p = subprocess.run(["cargo", "build", "--offline", "-p", "qv-probe", "--features", feats, "--message-format=json"],
                       cwd=HARNESS, env=env, stdout=subprocess.PIPE, stderr=subprocess.PIPE, text=True)
    if p.returncode != 0:
        raise Machinery("building /repo (%s) failed:\n%s" % (backend, p.stderr[-3000:]))
    art = {"deps": os.path.join(common.target_dir(backend), "debug", "deps")}
    for line in p.stdout.splitlines():
        try:
            m = json.loads(line)
        except ValueError:
            continue
        if m.get("reason") != "compiler-artifact":
            continue
        name = m["target"]["name"]
        if name in ("quantities", "astronomical_quantities", "astronomical-quantities", "serde_json", "serde"):
            for f in m["filenames"]:
                if f.endswith(".rlib"):
                    art[name.replace("-", "_")] = f
    if "quantities" not in art:
        raise Machinery("could not locate the quantities rlib in cargo's artifact messages")
    _ART[backend] = art
    return art


def gen_dir(name):
    d = os.path.join(BUILD, "gen", name)
    shutil.rmtree(d, ignore_errors=True)
    os.makedirs(d, exist_ok=True)
    return d


def rustc_check(src, backend, emit_bin=None, cfgs=()):
    """Type-check (or build, when emit_bin is given) one crate root.  Returns (returncode, diagnostics) where each
    diagnostic is {level, code, line (primary span, 1-based, in src; None if elsewhere), message, lines (all primary
    span lines in src, outermost macro expansion)}."""
    art = artifacts(backend)
    out_dir = os.path.dirname(src)
    cmd = ["rustc", "--edition", "2021", "--error-format=json", "--cap-lints", "allow",
           "-L", "dependency=" + art["deps"], "--extern", "quantities=" + art["quantities"]]
    if "astronomical_quantities" in art:
        cmd += ["--extern", "astronomical_quantities=" + art["astronomical_quantities"]]
    for c in cfgs:
        cmd += ["--cfg", c]
    if emit_bin:
        cmd += ["--crate-type", "bin", "-C", "opt-level=0", "-C", "debuginfo=0", "-o", emit_bin]
    else:
        cmd += ["--crate-type", "lib", "--emit=metadata", "--out-dir", out_dir]
    cmd.append(src)
    p = subprocess.run(cmd, stdout=subprocess.PIPE, stderr=subprocess.PIPE, text=True)
    diags = []
    base = os.path.basename(src)
    for line in p.stderr.splitlines():
        try:
            m = json.loads(line)
        except ValueError:
            continue
        if m.get("level") not in ("error", "warning"):
            continue
        if m.get("message", "").startswith("aborting due to"):
            continue
        lines = []
        for sp in m.get("spans", []):
            if not sp.get("is_primary"):
                continue
            # outermost expansion: the place in the user's source the macro was invoked from
            cur = sp
            while cur.get("expansion") and cur["expansion"].get("span"):
                cur = cur["expansion"]["span"]
            if os.path.basename(cur.get("file_name", "")) == base:
                lines.append((cur["line_start"], cur["line_end"]))
        diags.append({"level": m["level"], "code": (m.get("code") or {}).get("code"),
                      "message": m.get("message", "")[:300], "lines": lines,
                      "line": lines[0][0] if lines else None})
    return p.returncode, diags


def parallel(fn, items, workers=16):
    with cf.ThreadPoolExecutor(max_workers=workers) as ex:
        return list(ex.map(fn, items))
