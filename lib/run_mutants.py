#!/usr/bin/env python3
"""Apply each recorded property-breaking patch (mutants/*.diff, seeded/*/patch.diff) to /repo's working tree, run
the repository's own test-suite (optional) and the quick checks that are expected to report it, and revert.

  lib/run_mutants.py [--baseline] [--only NAME-SUBSTRING] [--seeded]

Results: mutants/results.json (or seeded/results.json) and a table on stdout.  Exit 0 iff every mutant was reported by
every expected check and no control was reported."""
import json
import os
import re
import subprocess
import sys
import time

VERIF = os.path.dirname(os.path.dirname(os.path.abspath(__file__)))
REPO = "/repo"


def run(cmd, **kw):
    return subprocess.run(cmd, stdout=subprocess.PIPE, stderr=subprocess.STDOUT, text=True, **kw)


def clean():
    run(["git", "-C", REPO, "checkout", "--", "."])
    run(["git", "-C", REPO, "clean", "-fdq", "--", "tests", "src", "qty-macros", "astronimical_quantities", "examples"])
    return run(["git", "-C", REPO, "status", "--porcelain"]).stdout.strip() == ""


def baseline():
    """the repository's own suite: returns (number of passed tests, list of failed tests)"""
    p = run(["cargo", "test", "--workspace", "--no-fail-fast", "--offline"], cwd=REPO)
    passed = sum(int(m) for m in re.findall(r"test result: \w+\. (\d+) passed", p.stdout))
    # doc-tests are counted by cargo as well; the pinned baseline counts the 65 unit / integration tests
    failed = re.findall(r"^test (\S+) \.\.\. FAILED", p.stdout, re.M)
    failed += ["doctest:" + m for m in re.findall(r"^test (\S+ - \S.*?) \.\.\. FAILED", p.stdout, re.M)]
    if "error: could not compile" in p.stdout:
        failed.append("<does not compile>")
    return passed, failed


def check(prop):
    t = time.time()
    p = run([os.path.join(VERIF, "check"), prop, "--tier", "quick"], cwd=VERIF)
    viol = re.findall(r"^VIOLATION property=(\S+)", p.stdout, re.M)
    classes = re.findall(r"^  class=(\S+)", p.stdout, re.M)
    return {"exit": p.returncode, "violations": len(viol), "classes": classes[:8], "wall_s": round(time.time() - t, 1),
            "tail": p.stdout[-600:] if p.returncode == 2 else ""}


def main():
    args = sys.argv[1:]
    with_baseline = "--baseline" in args
    seeded = "--seeded" in args
    only = args[args.index("--only") + 1] if "--only" in args else None
    skip = args[args.index("--skip") + 1] if "--skip" in args else None  # names containing this text are left out
    prefix = args[args.index("--prefix") + 1] if "--prefix" in args else None  # only names starting with this text
    if seeded:
        root = os.path.join(VERIF, "seeded")
        items = {}
        for d in sorted(os.listdir(root)):
            mp = os.path.join(root, d, "meta.json")
            if os.path.exists(mp):
                with open(mp, encoding="utf-8") as f:
                    m = json.load(f)
                items[d] = {"properties": m.get("checks_expected", [m["property"]]), "description": m.get("summary", ""), "patch": os.path.join(root, d, "patch.diff"),
                            "control_for": ([m["property"]] if m.get("not_reported_by_design") else [])}
    else:
        root = os.path.join(VERIF, "mutants")
        with open(os.path.join(root, "index.json"), encoding="utf-8") as f:
            items = json.load(f)
        for k, v in items.items():
            v["patch"] = os.path.join(root, k + ".diff")
    if not clean():
        print("/repo is not clean")
        return 2
    results = {}
    ok_all = True
    for name, m in items.items():
        if (only and only not in name) or (skip and skip in name) or (prefix and not name.startswith(prefix)):
            continue
        a = run(["git", "-C", REPO, "apply", m["patch"]])
        if a.returncode != 0:
            results[name] = {"error": "patch does not apply: " + a.stdout[-300:]}
            ok_all = False
            clean()
            continue
        rec = {"description": m["description"], "checks": {}}
        if with_baseline:
            passed, failed = baseline()
            rec["baseline_passed"] = passed
            rec["baseline_failed"] = failed
            rec["survives_suite"] = [f for f in failed if not f.endswith("::ui") and not f.startswith("doctest:")] == [] and passed >= 65
            rec["doctests_failed"] = [f for f in failed if f.startswith("doctest:")]
        for prop in m.get("properties", []):
            r = check(prop)
            rec["checks"][prop] = r
            if r["exit"] != 1:
                ok_all = False
        for prop in m.get("control_for", []):
            r = check(prop)
            rec["checks"][prop + " (control)"] = r
            if r["exit"] != 0:
                ok_all = False
        results[name] = rec
        if not clean():
            print("could not restore /repo after", name)
            return 2
        line = "%-48s " % name + " ".join("%s:%s" % (k, {0: "quiet", 1: "VIOLATION", 2: "machinery"}.get(v["exit"], v["exit"])) for k, v in rec["checks"].items())
        if with_baseline:
            line += "  suite: %s" % ("survives (%d passed)" % rec["baseline_passed"] if rec["survives_suite"] else "KILLED by " + ",".join(rec["baseline_failed"]))
            if rec.get("doctests_failed"):
                line += "  [doc tests failing: %d]" % len(rec["doctests_failed"])
        print(line)
        sys.stdout.flush()
    out = os.path.join(root, "results.json")
    prev = {}
    if os.path.exists(out):
        with open(out, encoding="utf-8") as f:
            prev = json.load(f)
    if not with_baseline:
        # keep the recorded outcome of the repository's suite from an earlier --baseline run
        for k, rec in results.items():
            for fld in ("baseline_passed", "baseline_failed", "survives_suite", "doctests_failed"):
                if fld in prev.get(k, {}) and fld not in rec:
                    rec[fld] = prev[k][fld]
    if not only and not skip and not prefix:
        prev = {k: v for k, v in prev.items() if k in results}
    prev.update(results)
    with open(out, "w", encoding="utf-8") as f:
        json.dump(prev, f, ensure_ascii=False, indent=1, sort_keys=True)
    print("all mutants reported / all controls quiet" if ok_all else "SOME EXPECTATIONS NOT MET")
    return 0 if ok_all else 1


if __name__ == "__main__":
    sys.exit(main())
