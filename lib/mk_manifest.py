#!/usr/bin/env python3
"""Regenerate /verif/MANIFEST.json from the table below (kept in one place so it stays valid)."""
import json
import os
import sys

sys.path.insert(0, os.path.dirname(os.path.abspath(__file__)))
VERIF = os.path.dirname(os.path.dirname(os.path.abspath(__file__)))

E1 = "E1 value-space explorer (harness/qv-drive + harness/qv-model)"
E2 = "E2 program-space explorer (lib/e2*.py + rustc)"
E3 = "E3 configuration-space explorer (lib/e3.py + cargo)"

TRUST_E1 = ("Trusted: the hand-written definition tables (data/*.json), the model's bigint/rational arithmetic "
            "(differentially tested against Python), rustc/std float arithmetic and parsing, fpdec 0.11 as the "
            "definition of Decimal arithmetic. Amounts outside the enumerated alphabets are covered by the "
            "small-scope argument of DESIGN.md section 3, not by execution. That one evaluation per input covers every "
            "history is itself explored: all ordered pairs (c1, c2) of one call alphabet spanning every operation kind and "
            "type (about 8 400 calls per back-end) are executed, and c2 must observe what it observes from any other "
            "history (DESIGN.md 9.9), and all triples over a reduced alphabet of about 300 calls (9.11); thread interleavings are "
            "not enumerated - the library has no synchronisation to hook.")

# id -> (engine, technique, level text, level note, design ref)
CLAIMED = {
    "C01": (E1, "bounded exhaustive breadth-first exploration of the real conversion code in lock-step with an exact-rational reference model",
            "Every conversion between every ordered unit pair of every quantity type with a reference unit (catalogue, "
            "astronomical, synthetic, dimensionless), in both amount back-ends, from a value alphabet that contains the "
            "unit-scale boundaries, closed under conversion to depth 2 (quick) / 3 (thorough); each transition is judged "
            "against exact rational arithmetic with a derived rounding bound, each depth-2 path for round trip and "
            "chained-vs-direct agreement. Exhaustive within those bounds; no sampling.",
            TRUST_E1, "5.1"),
    "C02": (E1, "bounded exhaustive enumeration of product states (two values in two units) with all seven relations evaluated in both operand orders on the real code, judged by an exact-rational order oracle",
            "All ordered unit pairs of all types with a reference unit, both back-ends; left amounts from the value and "
            "special alphabets, right amounts from the same alphabets plus the amount that denotes the same magnitude in "
            "the other unit and its representable neighbours (forced collisions). Order independence is checked on every "
            "non-NaN state, physical correctness on every state whose magnitudes differ by more than one conversion "
            "error, identity with the amount comparison on every same-unit state. Exhaustive within those bounds.",
            TRUST_E1, "5.2"),
    "C03": (E1, "bounded exhaustive breadth-first exploration of +, -, / on the real code against an exact-rational reference model",
            "All ordered unit pairs of all types with a reference unit, both back-ends, operand amounts from the value, "
            "special and boundary alphabets (including the operand that cancels the other one in a different unit), sums "
            "fed back as operands to depth 2. Cross-unit results are judged against exact rational arithmetic with a "
            "derived rounding bound, same-unit results must be bit-identical to the amount type's own operation.",
            TRUST_E1, "5.3"),
    "C08": (E1, "exhaustive enumeration of (type, unit, amount, scalar) over finite alphabets on the real code with a bit-exact differential oracle (the amount type's own operation)",
            "Every unit of every quantity type of the universe x every amount of the value, special (all IEEE classes) and "
            "range-edge alphabets x every scalar of the same alphabets; construction in three forms, accessors, k*q, q*k, "
            "q/k. The oracle is bit-exact, so no tolerance is involved.",
            TRUST_E1, "5.8"),
    "C10": (E1, "exhaustive enumeration of operand pairs over finite alphabets on the real code; oracle: panic-or-bit-identical",
            "Every ordered unit pair of every type without reference unit x every pair of alphabet amounts (equal amounts in "
            "different units included): all relational forms (== != < <= > >=, partial_cmp and the PartialOrd methods, "
            "every value also against itself as one object), and + - / under catch_unwind; the documented panic must occur exactly "
            "when units differ. Each back-end is explored in two builds: dev profile and the same build without debug "
            "assertions / overflow checks, because a panic that exists only in one of them is a violation too.",
            TRUST_E1, "5.10"),
    "C04": (E1, "bounded exhaustive exploration (depth 2: operator then inverse operator) of all derived operator instances on the real code against an exact-rational reference model",
            "All 56 operator instances (34 catalogue, 4 astronomical, 18 synthetic) x all operand unit pairs x alphabet "
            "amount pairs x the four ownership forms; magnitude judged in exact rational arithmetic with a derived "
            "rounding bound; every result is fed to the inverse operator instance and must return the original magnitude.",
            TRUST_E1 + " Decimal cases are restricted to the magnitude precondition of C18 as read in DESIGN.md 5.18.", "5.4"),
    "C05": (E1, "bounded exhaustive exploration with a boundary alphabet computed from the unit-scale tables; oracle = independent transcription of the selection rule",
            "All operator instances x all operand unit pairs x operand amounts constructed so that the result magnitude "
            "sweeps across, exactly onto (with representable neighbours) and beside every unit scale of the result type, "
            "plus zero/negative/out-of-range magnitudes; the expected unit is computed from the statement, not from the "
            "selection code, with the exact magnitude deciding the side of each boundary.",
            TRUST_E1, "5.5"),
    "C06": (E2, "exhaustive enumeration of a bounded program grammar (all ordered type pairs x 12 operator forms; all derivation graphs with <= 2 derived types), each program type-checked by rustc against the real crate and compared with the model's closure of the declared derivations",
            "All ordered type pairs x 12 operator forms (+ - * / == <, and the in-place and remainder forms += -= *= /= % %=, "
            "which must be rejected wherever they are dimensionally meaningless) over the catalogue in both back-ends, the "
            "astronomical crate, every cross-crate pair, a crate with two modules declaring the same names and derivations, and 132 derivation graphs (each with a single-unit and a "
            "no-reference-unit bystander type) with their complete program sets (or whole-crate rejection where derivations "
            "collide): 86 032 verdicts (thorough: graphs with three derived types), each compared with the verdict and "
            "result type predicted from the declarations. Rejected programs carry no type ascription, so an unexpected "
            "operator with any result type is caught.",
            "Trusted: rustc's type checker, the declared derivations in data/catalogue.json, attribution of diagnostics to programs by line. Graphs with more than two derived types or three base types are outside the bound.", "5.6"),
    "C07": (E1, "exhaustive enumeration of the finite unit catalogue against an independently written definition table chained with exact rationals",
            "The domain is finite and is enumerated completely: every unit of every predefined and synthetic quantity in "
            "both back-ends, every accessor, every pair of SI-prefixed units, and every documented unit constant (compile-time "
            "probe that the constant denotes its own variant).",
            TRUST_E1 + " The tables are definition chains from the standards, not copies of the crate's numbers.", "5.7"),
    "C09": (E1, "exhaustive enumeration of registry sequences and lookup inputs (declared values plus systematically generated near misses) against a model-computed order",
            "Every type's iteration sequence and every lookup over all declared symbols/scales and all generated near "
            "misses; the expected order and first-match results are computed by the model, not by the lookup code. The "
            "upper-snake-case constants are probed by compiling one program per unit (E2).",
            TRUST_E1, "5.9"),
    "C11": (E2, "exhaustive enumeration of a bounded grammar of well-formed #[quantity] definitions (all attribute permutations, literal spellings, prefix/doc patterns, kinds); each compiled with the real macro and executed, its registry dump and operator corpus compared with a Python model of the declaration",
            "~975 (quick) / ~5 600 (thorough) definitions per back-end - including declarations with 25 and 44 units, scale "
            "literals with up to 19 significant digits, integer literals beyond 2^53 and struct identifiers that are not in "
            "upper-camel form -, every one compiled and executed against the real crate; "
            "names, symbols, prefixes, scales (exact literal value in the amount type), iteration order incl. ties, "
            "constants, lookups, constructors and all operator families are compared with the model; the permutation "
            "clause is checked on the observed dumps of each permutation group.",
            "Trusted: the Python model of the documented macro behaviour (lib/defgen.py), rustc. Definitions outside the grammar G (more than 3 further units, other literal forms, identifier words of one letter or with digits) are not enumerated.", "5.11"),
    "C12": (E2, "exhaustive application of every defect class to every well-formed base definition of a bounded grammar; each malformed definition expanded / type-checked by rustc, verdict and error location compared with the expectation",
            "61 concrete defect forms covering every clause of the statement x 26 base definitions (all kinds, sizes, "
            "basic and derived) = ~1 270 malformed definitions per back-end, plus tests/ui verbatim; each must carry an error "
            "inside its own line range while the well-formed control definitions compile clean.",
            "Trusted: rustc and the proc-macro diagnostics it reports; line-range attribution. Definitions outside the grammar (more than 3 further units, other identifier conventions) are not enumerated.", "5.12"),
    "C13": (E1, "bounded exhaustive exploration of rate construction, reciprocal, rate*q, q*rate, q/rate and their inverse paths on the real code against an exact-rational reference model",
            "All 56 ordered type pairs of a representative set (incl. a type with a reference unit and exactly one further "
            "unit, a single-unit type, a type without reference unit, the bare amount type) x all term/per/operand units x alphabet amounts; accessors "
            "and reciprocal bit-exact, products and quotients against exact rationals, inverse and reciprocal agreement "
            "on every depth-2 path.",
            TRUST_E1, "5.13"),
    "C14": (E1, "exhaustive enumeration of ALL conversion tables up to 3 entries over a 3-unit type (20 440 tables) and breadth-first closure of the temperature table, against a literal transcription of the statement / exact formulas",
            "Complete table space up to N = 3 (first-match, missing-pair and same-unit clauses bit-exact), tables with a row "
            "whose affine map overflows the Decimal representation at every position (a request it does not serve must be "
            "answered as if it were absent), every table reached through a generic `Converter` bound (and through method-call "
            "syntax and the fully qualified trait method, which must agree); temperature table explored to depth 3 with "
            "exact formulas and path oracles.",
            TRUST_E1, "5.14"),
    "C15": (E1, "exhaustive enumeration of a format-specification grid x units x amounts on the real code against an independent layout model and an exact-rational rounding oracle",
            "Every combination of flag, fill/alignment, width (to 40) and precision (to 20) of the grid, plus 6 (thorough: 22) "
            "specifications far beyond it (precision / width up to 65535), for every selected unit and amount, "
            "both back-ends; the amount text is judged by parsing it back / by exact rational comparison, the layout by an "
            "independent re-implementation.",
            TRUST_E1 + " str formatting of std is the definition of 'ordinary string formatting rules'; f64/Decimal FromStr are trusted for the parse-back clause.", "5.15"),
    "C16": (E1, "exhaustive enumeration of the finite input domains (all i8, all short strings over the abbreviation alphabet)",
            "Complete over all 25 prefixes, all 256 exponents and all strings of length <= 2 (thorough: <= 3) over an "
            "alphabet that contains every abbreviation character, its case swaps, the micro-sign look-alike and the "
            "characters that agree with an abbreviation character modulo 128 / 256; plus every abbreviation extended by "
            "one character on either side; the prefix iterator consumed from both ends in all 704 schedules of the forms "
            "F^i B^j F^*, B^i F^j B^* and the alternations.",
            "Trusted: the SI-brochure prefix table in data/catalogue.json.", "5.16"),
    "C17": (E1, "exhaustive enumeration of (unit, amount) states through three serde channels on the real code with a bit-exact round-trip oracle and a collision table for injectivity",
            "All catalogue and synthetic units (incl. identifiers with acronyms and digit boundaries, and unit names shared "
            "between types) x value and adversarial amount alphabets, both back-ends, three channels; bit-exact oracle; every "
            "deserialisation call after every other call of the history alphabet; the round trips of all catalogue units are "
            "repeated with serde_json built with `arbitrary_precision` (harness/qv-serde-ap).",
            TRUST_E1 + " serde / serde_json are trusted.", "5.17"),
    "C18": (E1, "exhaustive enumeration of operand tuples from totality alphabets (every IEEE class / Decimal range edges) through every operation under catch_unwind; precondition evaluated in exact rationals",
            "Every operation of the library on every unit pair with every combination of special values (f64) or range-edge "
            "values (Decimal); a panic on a case that satisfies the statement's precondition is a violation, the number of "
            "excluded cases is reported per precondition clause. Each back-end is explored in two builds (dev profile, and "
            "without debug assertions / overflow checks).",
            TRUST_E1 + " The Decimal precondition is read as in DESIGN.md 5.18 (includes the own-unit product/quotient of the amounts).", "5.18"),
    "C19": (E3, "exhaustive enumeration of the feature-configuration lattice; each configuration built by cargo from the working tree, probed for the items it must expose, and a fixed corpus compared between minimal and full configurations",
            "quick: the 16 feature sets of the statement (each of 14 alone, none, all) at the two opposite corners of "
            "{std} x {f64, fpdec} x {serde} plus none/all at the other six, plus the 62 further closures of pairs of quantity "
            "features under rotating opposite corners (168 builds), exposure probe per build, a client probe per build (a crate "
            "with its own items named like all predefined types and unit constants next to `use quantities::prelude::*` must "
            "mean its own items in every configuration), the workspace's downstream "
            "crate built alone and with serde / std / doc enabled through the dependency, operation corpus (all unit pairs x "
            "14 amounts incl. the edges of the binary format) for all 14 features in minimal vs full configuration and "
            "across std / no_std / serde variants (f64). thorough: all 380 dependency-closed feature sets "
            "x 8 variants = 3 040 builds (every requestable configuration is equivalent to one of them), corpus in both "
            "back-ends.",
            "Trusted: cargo's feature resolution; the model's derivation table for the exposure probe. amnt_f32 (32-bit targets) cannot be built here.", "5.19"),
}

PENDING_REASON = "check not built yet in this revision of /verif (see DESIGN.md section 5 for the planned exploration)"


def main():
    with open(os.path.join(VERIF, "properties.jsonl"), encoding="utf-8") as f:
        ids = [json.loads(l)["id"] for l in f if l.strip()]
    checks = []
    for pid in ids:
        if pid not in CLAIMED:
            continue
        eng, tech, text, note, ref = CLAIMED[pid]
        checks.append({
            "property_id": pid,
            "quick_cmd": "./check %s --tier quick" % pid,
            "thorough_cmd": "./check %s --tier thorough" % pid,
            "evidence_file": "/verif/evidence/%s.json" % pid,
            "replay_cmd_template": "./check --replay {path}",
            "engine": eng,
            "level_claimed": {"category": "model_checking", "text": text, "design_ref": "DESIGN.md section " + ref},
            "level_note": note,
            "technique": tech,
        })
    manifest = {
        "version": 1,
        "setup_cmd": "./check setup",
        "hooks": {
            "guard": "mamrhein_quantities_rs_verif",
            "enable": "unused: every observation point named by the properties is public API, so no hook was added to /repo",
            "baseline_off_cmd": "cd /repo && cargo test --workspace --no-fail-fast --offline",
            "source_commits": [],
            "add_only": True,
        },
        "engines": [
            {"name": "E1", "path": "harness/", "serves_properties": [p for p in ids if p in CLAIMED and CLAIMED[p][0] == E1],
             "kind_free_text": "explicit-state breadth-first explorer over quantity values, linking the real crate (both amount back-ends), judged by an exact-rational reference model"},
            {"name": "E2", "path": "lib/", "serves_properties": [p for p in ids if p in CLAIMED and CLAIMED[p][0] == E2],
             "kind_free_text": "exhaustive enumeration of bounded program grammars, each program type-checked / macro-expanded by rustc against the real crate and compared with a model verdict"},
            {"name": "E3", "path": "lib/", "serves_properties": [p for p in ids if p in CLAIMED and CLAIMED[p][0] == E3],
             "kind_free_text": "exhaustive enumeration of feature configurations, each built by cargo"},
        ],
        "checks": checks,
        "not_applicable": [{"property_id": p, "reason": PENDING_REASON} for p in ids if p not in CLAIMED],
        "notes": "All checks decide their property by bounded exhaustive enumeration (model-checking family); VERIF_SEED is accepted and recorded but unused because nothing is sampled. Exit 2 = machinery failure, never a verdict.",
    }
    with open(os.path.join(VERIF, "MANIFEST.json"), "w", encoding="utf-8") as f:
        json.dump(manifest, f, ensure_ascii=False, indent=1)
        f.write("\n")
    try:
        import jsonschema
        with open("/root/.vp/MANIFEST.schema.json") as f:
            jsonschema.validate(manifest, json.load(f))
        print("MANIFEST.json valid: %d checks, %d not claimed" % (len(checks), len(manifest["not_applicable"])))
    except ImportError:
        print("MANIFEST.json written (jsonschema not importable here)")


if __name__ == "__main__":
    main()
