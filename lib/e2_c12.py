"""C12 - malformed quantity definitions are rejected at compile time, with the error at the offending definition."""
import copy
import glob
import os

import catalogue
import common
import defgen
import e2
from common import Machinery

HEADER = ["#![allow(unused, non_snake_case, non_camel_case_types, non_upper_case_globals)]", "use quantities::prelude::*;"]


def base_definitions():
    """~30 well-formed base definitions drawn from the grammar G: every kind x size x basic/derived."""
    U = defgen.unit
    bases = []

    def ref(lits, pat, order=None, derived=False):
        n = len(lits)
        p = defgen.pattern(pat, n + 1)
        us = [U("Unit_%sx" % "ABC"[i], defgen.SYMS[i + 1], lit, defgen.PREFIX_FOR.get(lit) if p["prefix"] else None,
                "doc %d" % i if p["doc"] else None) for i, lit in enumerate(lits)]
        r = U("Ref_Unit", defgen.SYMS[0], None, "NONE" if p["prefix"] else None, "reference" if p["doc"] else None)
        bases.append({"kind": "ref", "ref": r, "units": us, "order": order, "doc_pos": p["doc_pos"], "derived_base": derived})

    for pat in range(4):
        ref(["0.5"], pat)
        ref(["0.001", "1000"], pat)
    ref(["1000."], 0, [1, 0])
    ref(["1", "2.5"], 1, [2, 0, 1])
    ref(["1e3", "0.5"], 2, [1, 2, 0])
    ref(["0.5", "1", "1000"], 3, [3, 2, 1, 0])
    ref(["0.5", "1000.", "1"], 0)
    for ids, doc in ((["Zeta", "Alpha"], False), (["Alpha", "Mid_Word", "beta_low"], True), (["Mid_Word", "Zeta", "Alpha"], False)):
        bases.append({"kind": "noref", "ref": None, "units": [U(i, defgen.SYMS[j + 2], None, None, "doc" if doc else None) for j, i in enumerate(ids)],
                      "order": None, "doc_pos": 0 if doc else None})
    for i in ("Zeta", "beta_low"):
        bases.append({"kind": "single", "ref": None, "units": [U(i, "so")], "order": None, "doc_pos": None})
    # derived definitions: each brings its own operand types
    for shape in ("A*B", "A/B", "A*A", "AmountT/A"):
        for lits, pat in ((["0.5"], 0), (["0.001", "1000"], 3)):
            ref(lits, pat, None, derived=shape)
    return bases


def operands_for(shape, t, noref=None):
    """fresh, well-formed operand definitions for a derived definition with tag t; `noref` in {lhs, rhs}
    replaces that operand by a type without reference unit"""
    def opdef(name, u1, u2, has_ref=True):
        if has_ref:
            return ["#[quantity]", '#[ref_unit(%s, "%s")]' % (u1, u1.lower()[:4]), '#[unit(%s, "%s", 1000)]' % (u2, u2.lower()[:4]), "pub struct %s {}" % name]
        return ["#[quantity]", '#[unit(%s, "%s")]' % (u1, u1.lower()[:4]), '#[unit(%s, "%s")]' % (u2, u2.lower()[:4]), "pub struct %s {}" % name]
    a, b = t + "Opa", t + "Opb"
    defs = [(a, opdef(a, t + "_Opa_Base", t + "_Opa_Kilo", noref != "lhs"))]
    if shape in ("A*B", "A/B"):
        defs.append((b, opdef(b, t + "_Opb_Base", t + "_Opb_Kilo", noref != "rhs")))
    derived = {"A*B": (a, "*", b), "A/B": (a, "/", b), "A*A": (a, "*", a), "AmountT/A": ("AmountT", "/", a)}[shape]
    return defs, derived


# ---------------------------------------------------------------------------
# defect classes.  Each returns a list of (variant name, lines of the defective definition) or [].
def defects(d):
    out = []
    members = ([("ref_unit", d["ref"])] if d.get("ref") else []) + [("unit", u) for u in d["units"]]
    quantity = "#[quantity(%s %s %s)]" % tuple(d["derived"]) if d.get("derived") else "#[quantity]"
    item = "pub struct %s {}" % d["name"]
    attrs = [defgen.render_attr(k, u) for k, u in members]
    t = d["tag"]

    def emit(name, q=quantity, a=None, it=item):
        out.append((name, [q] + (attrs if a is None else a) + [it]))

    def replace(i, text):
        a = list(attrs)
        a[i] = text
        return a

    first_unit = 1 if d.get("ref") else 0
    u0 = d["units"][0]
    # 1 no unit
    emit("no-unit", a=[x for x, (k, _) in zip(attrs, members) if k != "unit"])
    if d.get("ref"):
        # 2 more than one reference unit
        emit("two-ref-units", a=attrs + ['#[ref_unit(%s_Second_Ref, "r2")]' % t])
        emit("two-ref-units-first", a=['#[ref_unit(%s_Second_Ref, "r2")]' % t] + attrs)
        # ... the second one a token-for-token repetition of the first (last, and directly after the first)
        emit("two-identical-ref-units", a=attrs + [attrs[0]])
        emit("two-identical-ref-units-adjacent", a=[attrs[0]] + attrs)
        emit("three-ref-units", a=attrs + ['#[ref_unit(%s_Second_Ref, "r2")]' % t, '#[ref_unit(%s_Third_Ref, "r3")]' % t])
        # 3 scale on the reference unit
        r = d["ref"]
        emit("scale-on-ref-unit", a=replace(0, '#[ref_unit(%s, %s, 1.0)]' % (r["id"], catalogue.rust_str(r["sym"]))))
        emit("scale-and-prefix-on-ref-unit", a=replace(0, '#[ref_unit(%s, %s, KILO, 2)]' % (r["id"], catalogue.rust_str(r["sym"]))))
        # ... also when the literal is zero, one in another spelling, or not finite as f64
        for nm, lit in (("zero", "0.0"), ("integer-zero", "0"), ("one", "1"), ("overflowing", "1e999"), ("underflowing", "1e-400")):
            emit("scale-on-ref-unit-%s" % nm, a=replace(0, '#[ref_unit(%s, %s, %s)]' % (r["id"], catalogue.rust_str(r["sym"]), lit)))
        # 4 unit without scale next to a reference unit
        emit("unit-without-scale", a=replace(first_unit, defgen.render_attr("unit", u0, with_lit=False)))
        emit("unit-with-prefix-but-no-scale", a=replace(first_unit, '#[unit(%s, %s, KILO)]' % (u0["id"], catalogue.rust_str(u0["sym"]))))
        # 7c/7d/8b wrong number / kind of ref_unit arguments
        emit("ref-unit-too-few-args", a=replace(0, "#[ref_unit(%s)]" % r["id"]))
        emit("ref-unit-too-many-args", a=replace(0, '#[ref_unit(%s, "r", KILO, "doc", "extra")]' % r["id"]))
        emit("ref-unit-symbol-not-a-string", a=replace(0, "#[ref_unit(%s, sym)]" % r["id"]))
        emit("ref-unit-ident-is-a-string", a=replace(0, '#[ref_unit("%s", "r")]' % r["id"]))
        emit("ref-unit-no-arg-list", a=replace(0, "#[ref_unit]"))
    else:
        # 5 / 6 scale or prefix without any reference unit
        emit("scale-without-ref-unit", a=replace(0, '#[unit(%s, %s, 0.5)]' % (u0["id"], catalogue.rust_str(u0["sym"]))))
        for nm, lit in (("zero", "0"), ("float-zero", "0.0"), ("one", "1.0"), ("overflowing", "1e999")):
            emit("scale-without-ref-unit-%s" % nm, a=replace(0, '#[unit(%s, %s, %s)]' % (u0["id"], catalogue.rust_str(u0["sym"]), lit)))
        emit("prefix-without-ref-unit", a=replace(0, '#[unit(%s, %s, KILO)]' % (u0["id"], catalogue.rust_str(u0["sym"]))))
        emit("prefix-and-scale-without-ref-unit", a=replace(0, '#[unit(%s, %s, KILO, 1000)]' % (u0["id"], catalogue.rust_str(u0["sym"]))))
    # 7a/7b/8a wrong number / kind of unit arguments
    lit = ", 0.5" if d.get("ref") else ""
    emit("unit-too-few-args", a=replace(first_unit, "#[unit(%s)]" % u0["id"]))
    emit("unit-too-many-args", a=replace(first_unit, '#[unit(%s, "s", KILO, 1000, "doc", "extra")]' % u0["id"]))
    emit("unit-symbol-not-a-string", a=replace(first_unit, "#[unit(%s, 5%s)]" % (u0["id"], lit)))
    emit("unit-ident-is-a-string", a=replace(first_unit, '#[unit("%s", "s"%s)]' % (u0["id"], lit)))
    emit("unit-empty-arg-list", a=replace(first_unit, "#[unit()]"))
    emit("unit-name-value-form", a=replace(first_unit, '#[unit = "%s"]' % u0["id"]))
    if d.get("ref"):
        emit("unit-scale-before-prefix", a=replace(first_unit, '#[unit(%s, "s", 0.5, KILO)]' % u0["id"]))
        # (a negative scale literal such as -0.5 is ACCEPTED by the macro; it is a numeric literal of the right kind, no
        #  clause of the statement calls it malformed, so it is not a defect form here - DESIGN.md 9.3)
        emit("unit-two-scales", a=replace(first_unit, '#[unit(%s, "s", 0.5, 2)]' % u0["id"]))
        emit("unit-doc-before-scale", a=replace(first_unit, '#[unit(%s, "s", "doc", 0.5)]' % u0["id"]))
    emit("unit-missing-comma", a=replace(first_unit, '#[unit(%s "s")]' % u0["id"]))
    emit("unit-two-symbols", a=replace(first_unit, '#[unit(%s, "s", "doc", "extra")]' % u0["id"]))
    emit("duplicate-unit-identifier", a=attrs + [attrs[first_unit]])
    emit("unit-scale-is-a-string", a=replace(first_unit, '#[unit(%s, "s", "0.5", "doc", 7)]' % u0["id"]))
    # 9 struct fields, 10 generic parameters, 11 non-struct items
    emit("struct-with-named-field", it="pub struct %s { x: i32 }" % d["name"])
    emit("tuple-struct", it="pub struct %s(i32);" % d["name"])
    emit("struct-with-type-parameter", it="pub struct %s<T> {}" % d["name"])
    emit("struct-with-lifetime-parameter", it="pub struct %s<'a> {}" % d["name"])
    emit("struct-with-const-parameter", it="pub struct %s<const N: usize> {}" % d["name"])
    emit("enum-item", it="pub enum %s {}" % d["name"])
    emit("fn-item", it="pub fn %s() {}" % d["name"].lower())
    emit("type-alias-item", it="pub type %s = f64;" % d["name"])
    # 12 derivation argument other than a product or quotient of two identifiers
    a_, b_ = (d["derived"][0], d["derived"][2]) if d.get("derived") else (t + "Nope", t + "Nada")
    for name, arg in (("derivation-sum", "%s + %s" % (a_, b_)), ("derivation-difference", "%s - %s" % (a_, b_)),
                      ("derivation-single-identifier", a_), ("derivation-literal-operand", "%s * 2" % a_),
                      ("derivation-three-operands", "%s * %s * %s" % (a_, b_, a_)), ("derivation-path-operand", "self::%s * %s" % (a_, b_)),
                      ("derivation-two-arguments", "%s, %s" % (a_, b_)), ("derivation-string", '"%s * %s"' % (a_, b_)),
                      ("derivation-keyword", "fn baz"), ("derivation-parenthesised", "(%s) * %s" % (a_, b_))):
        emit(name, q="#[quantity(%s)]" % arg)
    return out


def build_cases():
    """[(case name, control definitions (lines), defective definition (lines), phase)]"""
    cases = []
    controls = []
    n = 0
    for bi, base in enumerate(base_definitions()):
        d = defgen.uniquify(copy.deepcopy(base), n)
        n += 1
        ctl_ops = []
        shape = base.get("derived_base")
        if shape:
            ops, derived = operands_for(shape, d["tag"])
            d["derived"] = derived
            ctl_ops = [l for _, ls in ops for l in ls]
        controls.append(("base%02d" % bi, ctl_ops + defgen.render(d)))
        for name, lines in defects(d):
            dd = defgen.uniquify(copy.deepcopy(base), n)
            n += 1
            ops_lines = []
            if shape:
                ops, derived = operands_for(shape, dd["tag"])
                dd["derived"] = derived
                ops_lines = [l for _, ls in ops for l in ls]
            # regenerate the defect on the freshly named copy
            lines = dict(defects_named(dd))[name]
            cases.append(("base%02d/%s" % (bi, name), ops_lines, lines, "expansion"))
        # 13 derived definition whose lhs / rhs / result lacks a reference unit (type-check phase)
        if shape:
            for which in ("lhs", "rhs", "result"):
                if which == "rhs" and shape in ("A*A", "AmountT/A"):
                    continue
                if which == "lhs" and shape == "AmountT/A":
                    continue
                dd = defgen.uniquify(copy.deepcopy(base), n)
                n += 1
                ops, derived = operands_for(shape, dd["tag"], noref=which if which != "result" else None)
                dd["derived"] = derived
                if which == "result":
                    dd["ref"] = None
                    dd["units"] = [dict(u, lit=None, prefix=None) for u in dd["units"]] + [defgen.unit(dd["tag"] + "_Extra_Unit", "xu")]
                    dd["order"] = None
                    dd["doc_pos"] = None
                cases.append(("base%02d/derived-%s-without-ref-unit" % (bi, which), [l for _, ls in ops for l in ls], defgen.render(dd), "typecheck"))
    return controls, cases


_DEFECT_CACHE = {}


def defects_named(d):
    return defects(d)


def judge_batch(name, controls, cases, backend, stats, violations, tier):
    """one crate: all control definitions + the given defective ones; every defective definition must carry an
    error inside its line range, no error may be attributed to anything else"""
    d = e2.gen_dir("c12-%s-%s" % (name, backend))
    src = os.path.join(d, "batch.rs")
    lines = list(HEADER)
    ctl_ranges = []
    for cname, cl in controls:
        lo = len(lines) + 1
        lines += cl
        ctl_ranges.append((cname, lo, len(lines)))
    ranges = []
    for cname, ops_lines, dl, phase in cases:
        lines += ops_lines
        lo = len(lines) + 1
        lines += dl
        ranges.append((cname, lo, len(lines), "\n".join(HEADER + ops_lines + dl)))
    with open(src, "w", encoding="utf-8") as f:
        f.write("\n".join(lines) + "\n")
    rc, diags = e2.rustc_check(src, backend)
    errs = [x for x in diags if x["level"] == "error"]
    claimed = set()
    for cname, lo, hi, text in ranges:
        stats["programs"] += 1
        mine = [x for x in errs if any(lo <= a <= hi or lo <= b <= hi for a, b in x["lines"])]
        for x in mine:
            claimed.add(id(x))
        if not mine:
            violations.append({
                "property": "C12", "key": "C12/malformed-definition-accepted/%s@%s" % (cname.split("/", 1)[1], backend), "count": 1,
                "engine": "E2", "backend": backend, "tier": tier, "program": text, "expect": "reject",
                "example": {"case": {"case": cname, "definition": text.split("\n")[len(HEADER):]},
                            "observed": "no error-level diagnostic inside the definition (lines %d-%d of the batch)" % (lo, hi),
                            "expected": "a compile error reported at the offending definition"}})
        else:
            stats["rejected_in_place"] += 1
            stats["codes"].update(x["code"] or "macro-error" for x in mine)
    stray = [x for x in errs if id(x) not in claimed]
    for x in stray:
        where = next((c for c, lo, hi in ctl_ranges if any(lo <= a <= hi for a, _ in x["lines"])), None)
        if where:
            violations.append({
                "property": "C12", "key": "C12/error-attributed-to-a-well-formed-definition@%s" % backend, "count": 1,
                "engine": "E2", "backend": backend, "tier": tier, "program": "\n".join(lines), "expect": "accept", "always": True,
                "example": {"case": {"control": where, "batch": name}, "observed": "%s: %s" % (x["code"], x["message"][:200]),
                            "expected": "no error at a well-formed definition"}})
        elif x["line"] is None and name == "typecheck":
            # errors without a span in this file (e.g. inside macro-generated impls) are tolerated only if every
            # defective definition was also reported in place
            stats["unlocated_errors"] = stats.get("unlocated_errors", 0) + 1
        else:
            stats["unlocated_errors"] = stats.get("unlocated_errors", 0) + 1


def run(prop, tier, seed, t0):
    catalogue.generate(common.BUILD)
    controls, cases = build_cases()
    totals = {"programs": 0, "rejected_in_place": 0, "codes": set(), "controls": len(controls), "ui_cases": 0,
              "single_program_compilations": 0}
    violations = []
    samples = [{"case": cases[3][0], "definition": cases[3][2]}, {"case": cases[-1][0], "definition": cases[-1][1] + cases[-1][2]}]
    for backend in ("f64", "dec"):
        e2.artifacts(backend)
        st = {"programs": 0, "rejected_in_place": 0, "codes": set()}
        # control group: the well-formed base definitions alone must compile clean
        d = e2.gen_dir("c12-controls-%s" % backend)
        src = os.path.join(d, "controls.rs")
        with open(src, "w", encoding="utf-8") as f:
            f.write("\n".join(HEADER + [l for _, cl in controls for l in cl]) + "\n")
        rc, diags = e2.rustc_check(src, backend)
        if rc != 0:
            errs = [x for x in diags if x["level"] == "error"]
            raise Machinery("C12 control group (well-formed base definitions) does not compile [%s]: %s" % (backend, errs[:2]))
        exp = [c for c in cases if c[3] == "expansion"]
        tc = [c for c in cases if c[3] == "typecheck"]
        judge_batch("expansion", controls, exp, backend, st, violations, tier)
        judge_batch("typecheck", controls, tc, backend, st, violations, tier)
        # the 13 cases of tests/ui verbatim, each compiled on its own
        if backend == "f64":
            for path in sorted(glob.glob("/repo/tests/ui/*.rs")):
                dd = e2.gen_dir("c12-ui")
                dst = os.path.join(dd, os.path.basename(path))
                with open(path, encoding="utf-8") as f:
                    text = f.read()
                with open(dst, "w", encoding="utf-8") as f:
                    f.write(text)
                rc, diags = e2.rustc_check(dst, backend)
                errs = [x for x in diags if x["level"] == "error" and x["line"] is not None]
                totals["ui_cases"] += 1
                st["programs"] += 1
                if rc == 0 or not errs:
                    violations.append({
                        "property": "C12", "key": "C12/ui-case-accepted/%s@%s" % (os.path.basename(path), backend), "count": 1,
                        "engine": "E2", "backend": backend, "tier": tier, "program": text, "expect": "reject",
                        "example": {"case": {"ui": os.path.basename(path)}, "observed": "compiles (or no located error)", "expected": "compile error"}})
                else:
                    st["rejected_in_place"] += 1
        # thorough: each malformed program compiled on its own, as the property words it
        if tier == "thorough":
            def single(c):
                cname, ops_lines, dl, phase = c
                dd = os.path.join(common.BUILD, "gen", "c12-single-%s" % backend)
                os.makedirs(dd, exist_ok=True)
                s = os.path.join(dd, "s_%s.rs" % abs(hash(cname)))
                with open(s, "w", encoding="utf-8") as f:
                    f.write("\n".join(HEADER + ops_lines + dl) + "\n")
                rc1, dg = e2.rustc_check(s, backend)
                os.unlink(s)
                lo = len(HEADER) + len(ops_lines) + 1
                hi = lo + len(dl) - 1
                located = any(x["level"] == "error" and any(lo <= a <= hi or lo <= b <= hi for a, b in x["lines"]) for x in dg)
                return rc1, located
            outs = e2.parallel(single, cases)
            st["single_program_compilations"] = len(cases)
            for c, (rc1, located) in zip(cases, outs):
                if rc1 == 0 or not located:
                    violations.append({
                        "property": "C12", "key": "C12/malformed-definition-accepted/%s@%s" % (c[0].split("/", 1)[1], backend), "count": 1,
                        "engine": "E2", "backend": backend, "tier": tier, "program": "\n".join(HEADER + c[1] + c[2]), "expect": "reject",
                        "example": {"case": {"case": c[0], "mode": "compiled on its own"}, "observed": "rc=%d located=%s" % (rc1, located),
                                    "expected": "a compile error reported at the offending definition"}})
        for k, v in st.items():
            if isinstance(v, set):
                totals[k] |= v
            else:
                totals[k] = totals.get(k, 0) + v
    if not violations and (totals["programs"] < 2 * 300 or totals["ui_cases"] != 13):
        raise Machinery("vacuity guard: C12 explored too little: %s" % {k: v for k, v in totals.items() if k != "codes"})
    merged = {}
    for v in violations:
        m = merged.setdefault(v["key"], dict(v, count=0))
        m["count"] += 1
    classes = sorted({c[0].split("/", 1)[1] for c in cases})
    coverage = {
        "exhaustive": True,
        "rule": "every defect class of the statement (%d concrete defect forms) applied to each of %d well-formed base "
                "definitions drawn from the definition grammar (with reference unit and 1-3 further units in 4 prefix/doc "
                "patterns and several attribute orders; without reference unit; single-unit; derived as A*B, A/B, A*A, "
                "AmountT/A with fresh operand types), wherever applicable: %d malformed definitions per back-end, plus the "
                "13 programs of tests/ui verbatim. Verdict: an error-level diagnostic whose primary span (outermost "
                "expansion) lies inside the line range of the offending definition, and none at any well-formed "
                "definition; the well-formed base definitions alone must compile clean (control group). Macro-expansion "
                "defects and type-check defects are compiled as separate crates. thorough: every malformed program is "
                "also compiled on its own" % (len(classes), len(controls), len(cases)),
        "states": totals["programs"], "transitions": totals["programs"] + totals.get("single_program_compilations", 0),
        "traces_validated_against_impl": totals["programs"],
        "evaluations": totals["programs"], "distinct_nontrivial": totals["rejected_in_place"],
        "programs": totals["programs"], "disagreements_checked": totals["programs"],
        "counters": {k: (sorted(v) if isinstance(v, set) else v) for k, v in totals.items()},
        "defect_forms": classes, "samples": samples,
    }
    assumptions = ["rustc / proc-macro diagnostics as reported with --error-format=json", "the line range of a definition runs from its #[quantity] attribute to its item line"]
    return common.finish(prop, tier, "model_checking", coverage, assumptions, list(merged.values()), t0, seed)
