"""E1: run the value-space explorer (qv-drive) for one property in the back-ends it needs."""
import concurrent.futures as cf
import time

import catalogue
import common
from common import BUILD, Machinery, build_drives, finish, run_drive

ASSUME_COMMON = [
    "definition tables of data/catalogue.json and data/syn.json (written independently of /repo)",
    "qv-model's 300-line bigint/rational arithmetic (differentially tested against Python in `./check setup`)",
    "units are bound to model units by their derive(Debug) variant names",
    "rustc/std IEEE-754 arithmetic and float parsing; fpdec 0.11 as the definition of Decimal arithmetic",
]


def run(prop, tier, seed, cfg, t0=None):
    t0 = t0 or time.time()
    catalogue.generate(BUILD)
    backends = list(cfg.get("backends", ["f64", "dec"]))
    # checks about panics also run a build without debug assertions / overflow checks ("release semantics")
    # (quick tier: every E1 check; thorough tier: the checks that ask for it, C10 and C18 - depth costs enough there)
    if tier == "quick" or "rel" in cfg.get("profiles", []):
        backends += [b + "-rel" for b in backends]
    # A back-end whose driver no longer builds against /repo (a change that breaks one of the VALID declarations of
    # data/syn.json in one amount back-end only, seed r7-C03) must not hide what the other back-ends find: the
    # back-ends that build are explored, violations found there are reported (they are facts about the real code);
    # without a violation an incomplete exploration is a machinery failure (exit 2), never a "held".
    failed = {}
    with cf.ThreadPoolExecutor(max_workers=len(backends)) as ex:
        bf = {b: ex.submit(common.build_drive, b) for b in backends}
        for b, f in bf.items():
            try:
                f.result()
            except Machinery as e:
                failed[b] = e
    built = [b for b in backends if b not in failed]
    if not built:
        raise next(iter(failed.values()))
    with cf.ThreadPoolExecutor(max_workers=len(built)) as ex:
        futs = {b: ex.submit(run_drive, b, prop, tier, None, max(4, 16 // min(len(built), 2))) for b in built}
        docs = {b: f.result() for b, f in futs.items()}
    if failed:
        if not any(d.get("by_class") for d in docs.values()) or any(d.get("machinery") for d in docs.values()):
            raise next(iter(failed.values()))
        print("note: qv-drive did not build for %s; reporting what %s found" % (", ".join(sorted(failed)), ", ".join(built)))
    return report(prop, tier, seed, cfg, docs, t0)


def report(prop, tier, seed, cfg, docs, t0):
    counters = {}
    by_backend = {}
    samples = []
    notes = []
    violations = []
    for b, d in docs.items():
        if d.get("machinery"):
            raise Machinery("; ".join(d["machinery"]))
        by_backend[b] = {"blocks": d["blocks"], "wall_s": round(d["wall_s"], 2), **d["counters"]}
        for k, v in d["counters"].items():
            counters[k] = counters.get(k, 0) + v
        samples += d["samples"][:3]
        notes += d.get("notes", [])
        for cls, n in d["by_class"].items():
            ex = next((v for v in d["violations"] if v["class"] == cls), None)
            violations.append({
                "property": prop, "key": "%s@%s" % (cls, b), "count": n, "engine": "E1",
                "backend": b, "tier": tier, "block": ex["block"] if ex else None, "example": ex,
            })
    # vacuity guards: floors this run must reach (per back-end)
    # (they vouch for a "held" verdict; a run that found violations reports them whatever it covered)
    floors = cfg.get("floors", {}).get(tier, cfg.get("floors", {}).get("quick", {}))
    for b, d in ([] if violations else docs.items()):
        for k, minimum in floors.items():
            got = d["counters"].get(k, 0)
            if got < minimum:
                raise Machinery("vacuity guard: %s[%s] counter %s = %d < floor %d" % (prop, b, k, got, minimum))
    # optional program-space part of the same property (E2), merged into this evidence
    if cfg.get("extra"):
        xc, xv, xs = cfg["extra"](tier)
        for k, v in xc.items():
            counters[k] = counters.get(k, 0) + v
        violations += xv
        samples = xs[:2] + samples
        counters["states"] = counters.get("states", 0) + xc.get("constant_probes", 0)
        counters["transitions"] = counters.get("transitions", 0) + xc.get("constant_probes", 0)
    states = counters.get("states", 0)
    transitions = counters.get("transitions", 0)
    coverage = {
        "exhaustive": True,
        "rule": cfg["rule"][tier] if isinstance(cfg["rule"], dict) else cfg["rule"],
        "states": states,
        "transitions": transitions,
        "traces_validated_against_impl": counters.get(cfg.get("traces_key", "transitions"), transitions),
        "evaluations": transitions,
        "distinct_nontrivial": counters.get("sensitive", 0),
        "counters": counters,
        "by_backend": by_backend,
        "samples": samples[:6] or [{"note": "no sample recorded"}],
        "notes": notes[:20],
        "explanation": cfg.get("explanation", ""),
    }
    return finish(prop, tier, "model_checking", coverage, ASSUME_COMMON + [common.purity_scan()] + cfg.get("assumptions", []), violations, t0, seed)
