"""E3 / C19: every feature combination builds and is self-contained.

Exhaustive enumeration of feature configurations; each one is built by cargo from /repo's current working tree, an
exposure probe is compiled against the library that build produced, and a fixed operation corpus is run in the minimal
and in the full configuration of every feature."""
import concurrent.futures as cf
import itertools
import json
import os
import subprocess
import time

import catalogue
import common
from common import BUILD, Machinery

REPO = "/repo"
VARIANTS = [(std, dec, serde) for std in (True, False) for dec in (False, True) for serde in (False, True)]


def vname(v):
    std, dec, serde = v
    return "%s-%s-%s" % ("std" if std else "nostd", "fpdec" if dec else "f64", "serde" if serde else "noserde")


def feature_table():
    p = subprocess.run(["cargo", "metadata", "--no-deps", "--format-version", "1", "--offline", "--manifest-path", REPO + "/Cargo.toml"],
                       stdout=subprocess.PIPE, stderr=subprocess.PIPE, text=True, env=common.env_offline())
    if p.returncode != 0:
        raise Machinery("cargo metadata failed: " + p.stderr[-2000:])
    meta = json.loads(p.stdout)
    pkg = next(x for x in meta["packages"] if x["name"] == "quantities")
    return pkg["features"]


def closure(feats, table):
    out = set()
    todo = list(feats)
    while todo:
        f = todo.pop()
        if f in out or f not in table:
            continue
        out.add(f)
        todo += [d for d in table[f] if not d.startswith("dep:") and "/" not in d]
    return out


def quantity_features(model):
    return [t["feature"] for t in model["types"] if t["universe"] == "main"]


def closed_sets(qf, table):
    """all dependency-closed subsets of the quantity features"""
    seen = set()
    for r in range(len(qf) + 1):
        for combo in itertools.combinations(qf, r):
            c = frozenset(closure(combo, table) & set(qf))
            seen.add(c)
    return sorted(seen, key=lambda s: (len(s), sorted(s)))


def target_dir(v):
    return os.path.join(BUILD, "c19", vname(v))


def cargo_features(fset, v):
    std, dec, serde = v
    fs = sorted(fset)
    if std:
        fs.append("std")
    if dec:
        fs.append("fpdec")
    if serde:
        fs.append("serde")
    return fs


def build_config(fset, v):
    """cargo build of the library in one configuration; returns (ok, rlib path, deps dir, log tail)"""
    env = common.env_offline()
    env["CARGO_TARGET_DIR"] = target_dir(v)
    fs = cargo_features(fset, v)
    cmd = ["cargo", "build", "--offline", "--lib", "-p", "quantities", "--manifest-path", REPO + "/Cargo.toml", "--no-default-features",
           "--message-format=json"]
    if fs:
        cmd += ["--features", ",".join(fs)]
    p = subprocess.run(cmd, stdout=subprocess.PIPE, stderr=subprocess.PIPE, text=True, env=env)
    rlib = None
    msgs = []
    for line in p.stdout.splitlines():
        try:
            m = json.loads(line)
        except ValueError:
            continue
        if m.get("reason") == "compiler-artifact" and m["target"]["name"] == "quantities":
            rlib = next((f for f in m["filenames"] if f.endswith(".rlib")), None)
        if m.get("reason") == "compiler-message" and m["message"].get("level") == "error":
            msgs.append(m["message"].get("rendered", "")[:600])
    ok = p.returncode == 0 and rlib is not None
    return ok, rlib, os.path.join(target_dir(v), "debug", "deps"), ("\n".join(msgs) or p.stderr[-1500:])


def probe_source(fset, model):
    """a program naming every quantity type of the enabled features, one unit constant of each, and every derivation
    operator whose three types are enabled"""
    by_key = {t["key"]: t for t in model["types"]}
    lines = ["#![allow(unused)]"]
    enabled = {t["key"] for t in model["types"] if t["universe"] == "main" and t["feature"] in fset}
    enabled.add("amt.AmountT")
    n_items = 0
    for k in sorted(enabled):
        t = by_key[k]
        if k == "amt.AmountT":
            continue
        u = t["units"][0]
        lines.append("const _: %s::%sUnit = %s::%s;" % (t["path"], t["name"], t["path"], u["const"]))
        lines.append("fn _t_%s(_: %s::%s) {}" % (t["name"].lower(), t["path"], t["name"]))
        n_items += 2
    n = 0
    for (a, op, b, r) in catalogue.operator_instances(model, ("main",)):
        if {a, b, r} <= enabled:
            lines.append("fn _op%d(a: %s, b: %s) -> %s { a %s b }" % (n, catalogue.rust_type(by_key[a]), catalogue.rust_type(by_key[b]),
                                                                       catalogue.rust_type(by_key[r]), op))
            n += 1
    return "\n".join(lines) + "\n", n_items, n


def client_source(model):
    """A client crate that has its OWN items named like every predefined quantity type and every predefined unit
    constant, and glob-imports the prelude (at module level next to its own glob, and inside a function).  What the
    names denote in client code must not depend on which features of the library are enabled: on the pinned tree the
    prelude exports none of them, so the client means its own items in every configuration."""
    main = [t for t in model["types"] if t["universe"] == "main"]
    own = ["    pub struct Marker;"]
    uses = []
    for t in main:
        own.append("    pub struct %s;" % t["name"])
        own.append("    pub struct %sUnit;" % t["name"])
        uses.append("    let _: own::%s = %s;" % (t["name"], t["name"]))
        uses.append("    let _: own::%sUnit = %sUnit;" % (t["name"], t["name"]))
        for u in t["units"]:
            own.append("    pub const %s: Marker = Marker;" % u["const"])
            uses.append("    let _: own::Marker = %s;" % u["const"])
    lines = ["#![allow(unused, non_upper_case_globals, ambiguous_glob_imports)]", "mod own {"] + sorted(set(own)) + ["}", "mod two_globs {",
             "    use super::own; use super::own::*;", "    use quantities::prelude::*;", "    pub fn f() {"] + ["    " + x for x in uses] + ["    }", "}",
             "mod local_glob {", "    use super::own; use super::own::*;", "    pub fn f() {", "        use quantities::prelude::*;"] + ["    " + x for x in uses] + ["    }", "}",
             "fn main() { two_globs::f(); local_glob::f(); }"]
    return "\n".join(lines) + "\n", len(uses)


def rustc_probe(src_text, rlib, deps, workdir, name, as_bin=False, cfgs=()):
    os.makedirs(workdir, exist_ok=True)
    src = os.path.join(workdir, name + ".rs")
    with open(src, "w", encoding="utf-8") as f:
        f.write(src_text)
    cmd = ["rustc", "--edition", "2021", "--cap-lints", "allow", "-L", "dependency=" + deps, "--extern", "quantities=" + rlib]
    for c in cfgs:
        cmd += ["--cfg", c]
    if as_bin:
        out = os.path.join(workdir, name)
        cmd += ["--crate-type", "bin", "-C", "opt-level=0", "-C", "debuginfo=0", "-o", out]
    else:
        cmd += ["--crate-type", "lib", "--emit=metadata", "--out-dir", workdir]
    cmd.append(src)
    p = subprocess.run(cmd, stdout=subprocess.PIPE, stderr=subprocess.PIPE, text=True)
    return p.returncode == 0, p.stderr[-1500:]


# ---------------------------------------------------------------------------
CORPUS_HEADER = r'''#![allow(unused)]
use quantities::prelude::*;
use quantities::{AmountT, HasRefUnit, LinearScaledUnit, Quantity, Unit};
use std::fmt::{Debug, Display};
use std::ops::{Add, Div, Mul, Sub};
use std::panic::{catch_unwind, AssertUnwindSafe};

#[cfg(not(dec))]
fn amounts() -> Vec<AmountT> {
    // ordinary amounts, both zeros, and the edges of the binary format (largest, near-largest, smallest normal, subnormal,
    // below EPSILON, 2^53 + 1, non-finite): code that differs between configurations tends to differ there
    vec![Amnt!(1), Amnt!(17.4), Amnt!(-2.5), Amnt!(0.001), Amnt!(0), -Amnt!(0.0), Amnt!(1.5e300), Amnt!(-1.7976931348623157e308),
         Amnt!(2.2250738585072014e-308), Amnt!(5e-324), Amnt!(1e-17), Amnt!(9007199254740993.0), f64::INFINITY, f64::NAN]
}
#[cfg(dec)]
fn amounts() -> Vec<AmountT> {
    vec![Amnt!(1), Amnt!(17.4), Amnt!(-2.5), Amnt!(0.001), Amnt!(0), -Amnt!(0.0), Amnt!(0.000000000000000001), Amnt!(99999999999999999),
         Amnt!(0.123456789012345678), Amnt!(-12345678901.123456789)]
}

/// one corpus line; an operation that panics (Decimal overflow) is part of the observable behaviour too
fn line(f: impl FnOnce() -> String) {
    match catch_unwind(AssertUnwindSafe(f)) {
        Ok(s) => println!("{s}"),
        Err(_) => println!("PANIC"),
    }
}

fn sec_ref<Q>(name: &str)
where Q: HasRefUnit + Debug + Display + PartialEq + PartialOrd + Add<Q, Output = Q> + Sub<Q, Output = Q> + Div<Q, Output = AmountT>,
      Q::UnitType: LinearScaledUnit + Debug {
    let us: Vec<Q::UnitType> = Q::iter_units().collect();
    for u in &us {
        println!("{name} unit {:?} {} {} {:?} {:?}", u, u.name(), u.symbol(), u.si_prefix(), u.scale());
        for v in &us {
            for a in amounts() {
                let (q, r) = (Q::new(a, *u), Q::new(a, *v));
                line(|| format!("{name} {:?}->{:?} {:?} | {} | {:>14.3} | {:+09.1} | {:*^12}", u, v, q.convert(*v).amount(), q, q, q, q));
                line(|| format!("{name} cmp {:?} {:?}", q == r, PartialOrd::partial_cmp(&q, &r)));
                line(|| format!("{name} + {:?}", (q + r).amount()));
                line(|| format!("{name} - {:?}", (q - r).amount()));
                line(|| format!("{name} / {:?}", q / r));
            }
        }
    }
}

fn sec_noref<Q>(name: &str)
where Q: Quantity + Debug + Display + PartialEq + PartialOrd, Q::UnitType: Debug {
    for u in Q::iter_units() {
        println!("{name} unit {:?} {} {}", u, u.name(), u.symbol());
        for v in Q::iter_units() {
            for a in amounts() {
                let (q, r) = (Q::new(a, u), Q::new(a, v));
                line(|| format!("{name} {:?}/{:?} {} | {:?} {:?}", u, v, q, q == r, PartialOrd::partial_cmp(&q, &r)));
            }
        }
    }
}

fn sec_op<A, B, R>(name: &str, f: fn(A, B) -> R)
where A: HasRefUnit, B: HasRefUnit, R: HasRefUnit + Display, A::UnitType: LinearScaledUnit + Debug, B::UnitType: LinearScaledUnit + Debug,
      R::UnitType: LinearScaledUnit + Debug {
    for u in A::iter_units() {
        for v in B::iter_units() {
            for x in amounts() {
                line(|| {
                    let r = f(A::new(x, u), B::new(Amnt!(2.5), v));
                    format!("{name} {:?} {:?} {:?} -> {:?} {:?} | {}", u, v, x, r.amount(), r.unit(), r)
                });
            }
        }
    }
}
'''


def corpus_source(model, table):
    """one section per quantity feature: everything that feature's closure offers"""
    by_key = {t["key"]: t for t in model["types"]}
    lines = [CORPUS_HEADER]
    main = [t for t in model["types"] if t["universe"] == "main"]
    insts = catalogue.operator_instances(model, ("main",))
    for t in main:
        f = t["feature"]
        cl = closure([f], table)
        keys = {x["key"] for x in main if x["feature"] in cl} | {"amt.AmountT"}
        lines.append('#[cfg(feature = "%s")]' % f)
        lines.append("fn section_%s() {" % f)
        for x in main:
            if x["feature"] not in cl:
                continue
            ty = catalogue.rust_type(x)
            if x["ref"]:
                lines.append('    sec_ref::<%s>("%s");' % (ty, x["name"]))
            else:
                lines.append('    sec_noref::<%s>("%s");' % (ty, x["name"]))
        for (a, op, b, r) in insts:
            if {a, b, r} <= keys:
                lines.append('    sec_op::<%s, %s, %s>("%s%s%s", |a, b| a %s b);' % (
                    catalogue.rust_type(by_key[a]), catalogue.rust_type(by_key[b]), catalogue.rust_type(by_key[r]),
                    by_key[a]["name"], op, by_key[b]["name"], op))
        if f == "temperature":
            lines.append("    for u in quantities::temperature::Temperature::iter_units() { for v in quantities::temperature::Temperature::iter_units() {")
            lines.append("        use quantities::Converter;")
            lines.append('        line(|| format!("tconv {:?}", quantities::temperature::TEMPERATURE_CONVERTER.convert(&quantities::temperature::Temperature::new(Amnt!(21.5), u), v))); } }')
        lines.append("}")
    lines.append("fn main() {")
    lines.append("    std::panic::set_hook(Box::new(|_| {}));")
    lines.append("    let want: Vec<String> = std::env::args().skip(1).collect();")
    for t in main:
        lines.append('    #[cfg(feature = "%s")]' % t["feature"])
        lines.append('    if want.iter().any(|w| w == "%s") { section_%s(); }' % (t["feature"], t["feature"]))
    lines.append("}")
    return "\n".join(lines) + "\n"


def build_downstream(extra):
    """cargo check of the workspace's own downstream crate (astronomical-quantities: it defines quantities with the
    macro and depends on nothing but `quantities` and `qty-macros`) with additional features of the main crate enabled
    through the dependency; returns (ok, command line, log tail)"""
    env = common.env_offline()
    env["CARGO_TARGET_DIR"] = os.path.join(BUILD, "c19", "downstream")
    cmd = ["cargo", "check", "--offline", "--manifest-path", REPO + "/Cargo.toml", "-p", "astronomical-quantities", "--lib"]
    if extra:
        cmd += ["--features", ",".join("quantities/" + f for f in extra)]
    p = subprocess.run(cmd, stdout=subprocess.PIPE, stderr=subprocess.PIPE, text=True, env=env)
    errs = [l for l in p.stderr.splitlines() if l.startswith("error")]
    return p.returncode == 0, " ".join(cmd[:2] + cmd[5:]), ("\n".join(errs[:4]) or p.stderr[-800:])


# ---------------------------------------------------------------------------
def run(prop, tier, seed, t0):
    model = catalogue.generate(BUILD)
    table = feature_table()
    qf = quantity_features(model)
    missing = [f for f in qf if f not in table]
    violations = []

    def violation(cls, case, observed, expected, cmdline):
        key = cls
        v = next((x for x in violations if x["key"] == key), None)
        if v is None:
            v = {"property": "C19", "key": key, "count": 0, "engine": "E3", "tier": tier, "command": cmdline,
                 "example": {"case": case, "observed": observed, "expected": expected}}
            violations.append(v)
        v["count"] += 1

    for f in missing:
        violation("C19/feature-missing/%s" % f, {"feature": f}, "not in [features]", "a feature per predefined quantity", "cargo metadata")
    qf = [f for f in qf if f in table]
    singles = [frozenset(closure([f], table) & set(qf)) for f in qf]
    none_set, all_set = frozenset(), frozenset(qf)
    if tier == "thorough":
        sets = closed_sets(qf, table)
        configs = [(s, v) for s in sets for v in VARIANTS]
        lattice = "all %d dependency-closed feature sets (computed from cargo metadata) x 8 variants" % len(sets)
    else:
        corner_a, corner_b = (True, False, False), (False, True, True)
        configs = [(s, v) for s in singles + [none_set, all_set] for v in (corner_a, corner_b)]
        configs += [(s, v) for s in (none_set, all_set) for v in VARIANTS if v not in (corner_a, corner_b)]
        # every pair of quantity features (dependency-closed), each under one of the four pairs of opposite variant
        # corners in rotation, so that a break needing two features together is met on every change
        known = set(singles) | {none_set, all_set}
        pair_sets = []
        for a, b in itertools.combinations(qf, 2):
            c = frozenset(closure([a, b], table) & set(qf))
            if c not in known:
                known.add(c)
                pair_sets.append(c)
        for i, s in enumerate(pair_sets):
            v = VARIANTS[i % 4]
            opposite = tuple(not x for x in v)
            configs += [(s, v), (s, opposite)]
        lattice = ("each of the 14 quantity features alone, none and all x the two opposite variant corners (std,f64,no serde) and "
                   "(no-std,fpdec,serde), plus none/all x the other 6 variants, plus the %d further closures of PAIRS of quantity "
                   "features, each under two opposite variant corners (rotating)" % len(pair_sets))
    # de-duplicate (a single feature's closure may coincide with another set)
    seen = set()
    configs = [c for c in configs if not (c in seen or seen.add(c))]
    by_variant = {}
    for s, v in configs:
        by_variant.setdefault(v, []).append(s)
    stats = {"configurations": 0, "builds_ok": 0, "probes_ok": 0, "probe_items": 0, "probe_operators": 0, "corpus_runs": 0,
             "corpus_identical": 0, "closed_sets": len({s for s, _ in configs})}
    samples = []

    client_src, n_client_names = client_source(model)

    def work(v):
        out = []
        for s in by_variant[v]:
            ok, rlib, deps, log = build_config(s, v)
            rec = {"set": sorted(s), "variant": vname(v), "build": ok, "log": log, "cmd": "cargo build --lib -p quantities --no-default-features --features %s" % ",".join(cargo_features(s, v))}
            if ok:
                src, n_items, n_ops = probe_source(s, model)
                pok, plog = rustc_probe(src, rlib, deps, os.path.join(BUILD, "gen", "c19-" + vname(v)), "probe")
                rec.update({"probe": pok, "probe_log": plog, "n_items": n_items, "n_ops": n_ops})
                cok, clog = rustc_probe(client_src, rlib, deps, os.path.join(BUILD, "gen", "c19-" + vname(v)), "client")
                rec.update({"client": cok, "client_log": clog})
            out.append(rec)
        return out

    with cf.ThreadPoolExecutor(max_workers=8) as ex:
        results = list(ex.map(work, list(by_variant)))
    for recs in results:
        for r in recs:
            stats["configurations"] += 1
            if r["build"]:
                stats["builds_ok"] += 1
                if r["probe"]:
                    stats["probes_ok"] += 1
                    stats["probe_items"] += r["n_items"]
                    stats["probe_operators"] += r["n_ops"]
                else:
                    violation("C19/not-self-contained/%s" % "+".join(r["set"] or ["none"]), {"features": r["set"], "variant": r["variant"]},
                              "exposure probe does not compile: " + r["probe_log"][-400:], "the quantity, its unit constants and its derivation operators are exposed", r["cmd"])
                if r.get("client"):
                    stats["client_probes_ok"] = stats.get("client_probes_ok", 0) + 1
                    stats["client_names"] = n_client_names
                else:
                    violation("C19/prelude-names-depend-on-features/%s" % "+".join(r["set"] or ["none"]), {"features": r["set"], "variant": r["variant"]},
                              "a client with its own items named like the predefined types / unit constants no longer compiles next to `use quantities::prelude::*`: " + r.get("client_log", "")[-400:],
                              "client code means the same in every configuration (the prelude exports none of these names)", r["cmd"])
            else:
                violation("C19/does-not-build/%s" % "+".join(r["set"] or ["none"]), {"features": r["set"], "variant": r["variant"]},
                          r["log"][-500:], "the crate compiles", r["cmd"])
            if len(samples) < 3 and r["set"]:
                samples.append({"features": r["set"], "variant": r["variant"], "built": r["build"], "probe_operators": r.get("n_ops")})
    # a crate that builds on this one keeps building when more features of this one are enabled (cargo unifies features
    # across the dependency graph): the workspace's astronomical crate, alone and with each additive feature of the main
    # crate that it builds with on its own.  (`fpdec` is not additive for it: its scale literals exceed 18 fractional
    # digits, so it never built with the decimal back-end.)
    base_ok, base_cmd, base_log = build_downstream([])
    stats["downstream_builds"] = 1
    if not base_ok:
        violation("C19/downstream-crate-does-not-build", {"crate": "astronomical-quantities", "extra": []}, base_log[-500:], "the crate compiles", base_cmd)
    else:
        extras = [["serde"], ["std"], ["serde", "std"]] + ([[f] for f in qf] + [["doc"], ["doc", "serde"]] if tier == "thorough" else [["doc", "serde"]])
        for extra in extras:
            ok, cmdline, log = build_downstream(extra)
            stats["downstream_builds"] += 1
            if not ok:
                violation("C19/enabling-features-breaks-downstream-crate/%s" % "+".join(extra), {"crate": "astronomical-quantities", "extra": extra},
                          log[-500:], "still compiles, as it does without the additional features", cmdline)
    # corpus: each feature's section in its minimal configuration vs the same section in the full configuration
    corpus = corpus_source(model, table)
    backends = [(True, False, False)] + ([(True, True, False)] if tier == "thorough" else [])
    for v in backends:
        wd = os.path.join(BUILD, "gen", "c19-corpus-" + vname(v))
        okf, rlibf, depsf, logf = build_config(all_set, v)
        if not okf:
            continue
        cfg_all = ['feature="%s"' % f for f in qf] + (["dec"] if v[1] else [])
        okb, blog = rustc_probe(corpus, rlibf, depsf, wd, "corpus_full", as_bin=True, cfgs=cfg_all)
        if not okb:
            raise Machinery("corpus does not compile in the full configuration [%s]: %s" % (vname(v), blog))
        full_bin = os.path.join(wd, "corpus_full")
        for f in qf:
            cl = frozenset(closure([f], table) & set(qf))
            ok, rlib, deps, log = build_config(cl, v)
            if not ok:
                continue
            okb, blog = rustc_probe(corpus, rlib, deps, wd, "corpus_min", as_bin=True, cfgs=['feature="%s"' % x for x in sorted(cl)] + (["dec"] if v[1] else []))
            if not okb:
                violation("C19/corpus-does-not-compile/%s" % f, {"feature": f, "variant": vname(v)}, blog[-500:], "the corpus section of the feature compiles in its minimal configuration", "rustc corpus")
                continue
            a = subprocess.run([os.path.join(wd, "corpus_min"), f], stdout=subprocess.PIPE, stderr=subprocess.PIPE)
            b = subprocess.run([full_bin, f], stdout=subprocess.PIPE, stderr=subprocess.PIPE)
            stats["corpus_runs"] += 1
            stats["corpus_lines"] = stats.get("corpus_lines", 0) + a.stdout.count(b"\n")
            if a.returncode == 0 and b.returncode == 0 and a.stdout == b.stdout and a.stdout:
                stats["corpus_identical"] += 1
            else:
                la, lb = a.stdout.decode("utf-8", "replace").splitlines(), b.stdout.decode("utf-8", "replace").splitlines()
                diff = next(((x, y) for x, y in zip(la, lb) if x != y), (len(la), len(lb)))
                violation("C19/results-depend-on-other-features/%s" % f, {"feature": f, "variant": vname(v)},
                          "minimal: %s | full: %s" % diff, "byte-identical corpus output in the minimal and in the full configuration", "corpus %s" % f)
    # std and serde are "additional features" too: the full corpus must not change with them (fpdec changes the amount
    # type by design and is compared within itself)
    for v in backends:
        wd = os.path.join(BUILD, "gen", "c19-corpus-" + vname(v))
        ref_bin = os.path.join(wd, "corpus_full")
        if not os.path.exists(ref_bin):
            continue
        ref = subprocess.run([ref_bin] + qf, stdout=subprocess.PIPE, stderr=subprocess.PIPE)
        for other in VARIANTS:
            if other == v or other[1] != v[1]:
                continue
            ok, rlib, deps, log = build_config(all_set, other)
            if not ok:
                continue
            wdo = os.path.join(BUILD, "gen", "c19-corpus-" + vname(other))
            okb, blog = rustc_probe(corpus, rlib, deps, wdo, "corpus_variant", as_bin=True, cfgs=['feature="%s"' % f for f in qf] + (["dec"] if other[1] else []))
            if not okb:
                violation("C19/corpus-does-not-compile/%s" % vname(other), {"variant": vname(other)}, blog[-500:], "the corpus compiles in every variant", "rustc corpus")
                continue
            got = subprocess.run([os.path.join(wdo, "corpus_variant")] + qf, stdout=subprocess.PIPE, stderr=subprocess.PIPE)
            stats["variant_corpus_runs"] = stats.get("variant_corpus_runs", 0) + 1
            if got.returncode == 0 and ref.returncode == 0 and got.stdout == ref.stdout and got.stdout:
                stats["variant_corpus_identical"] = stats.get("variant_corpus_identical", 0) + 1
            else:
                la, lb = ref.stdout.decode("utf-8", "replace").splitlines(), got.stdout.decode("utf-8", "replace").splitlines()
                diff = next(((x, y) for x, y in zip(la, lb) if x != y), (len(la), len(lb)))
                violation("C19/results-depend-on-other-features/%s-vs-%s" % (vname(v), vname(other)), {"variant": vname(other), "features": sorted(all_set)},
                          "%s: %s | %s: %s" % (vname(v), diff[0], vname(other), diff[1]),
                          "byte-identical corpus output whether or not std / serde are enabled", "corpus all")
    if not violations and (stats["configurations"] < (150 if tier == "quick" else 1000) or stats["corpus_runs"] < 14):
        raise Machinery("vacuity guard: C19 explored too little: %s" % stats)
    coverage = {
        "exhaustive": True,
        "rule": "feature configurations: %s; every configuration is built with plain cargo (--no-default-features --features ...) "
                "from /repo, so Cargo.toml's own feature edges are what is tested; per configuration an exposure probe "
                "(quantity types, a unit constant each, and every derivation operator whose three types are enabled, as "
                "computed by the model) is compiled against the library that build produced; a fixed operation corpus "
                "(all unit pairs x 4 amounts: conversion, Display, ==, partial_cmp, + - /, every derived operator, the "
                "temperature table) is run per feature in its minimal configuration and in the full one and compared byte "
                "for byte (%s); the full corpus is also compared across the std / no-std and serde / no-serde variants" % (lattice, "f64 and fpdec" if tier == "thorough" else "f64"),
        "states": stats["configurations"], "transitions": stats["configurations"] + stats["probes_ok"] + 2 * stats["corpus_runs"],
        "traces_validated_against_impl": stats["configurations"],
        "evaluations": stats["configurations"], "distinct_nontrivial": stats["builds_ok"],
        "counters": stats, "samples": samples or [{"note": "none"}],
    }
    assumptions = ["cargo's feature resolution and fingerprinting", "32-bit targets (amnt_f32) cannot be built in this sandbox: the 64-bit selection only"]
    return common.finish(prop, tier, "model_checking", coverage, assumptions, violations, t0, seed)
