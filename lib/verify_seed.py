#!/usr/bin/env python3
"""Confirm a seeded property-breaking change produced by an independent sub-agent, in ITS scratch worktree
(never in /repo), and file it under /verif/seeded/<id>/.

  lib/verify_seed.py /tmp/seed/C14 C14-last-match

Confirms: the change compiles; the repository's own suite still passes with it (the `ui` trybuild test fails on the
unchanged tree too and is ignored); the demonstration FAILS with the change and PASSES without it.  Writes
patch.diff, the demonstration and meta.json (incl. what was run and observed) to /verif/seeded/<id>/."""
import json
import os
import re
import shlex
import shutil
import subprocess
import sys

VERIF = os.path.dirname(os.path.dirname(os.path.abspath(__file__)))


def run(cmd, cwd, shell=False):
    env = dict(os.environ, CARGO_NET_OFFLINE="true")
    return subprocess.run(cmd, cwd=cwd, shell=shell, stdout=subprocess.PIPE, stderr=subprocess.STDOUT, text=True, env=env)


def suite(wt):
    p = run(["cargo", "test", "--workspace", "--no-fail-fast", "--offline"], wt)
    failed = re.findall(r"^test (\S+) \.\.\. FAILED", p.stdout, re.M)
    passed = sum(int(m) for m in re.findall(r"test result: \w+\. (\d+) passed", p.stdout))
    compiled = "error: could not compile" not in p.stdout
    return compiled, passed, failed


def main():
    wt, sid = sys.argv[1], sys.argv[2]
    out = os.path.join(wt, "seed_out")
    with open(os.path.join(out, "meta.json"), encoding="utf-8") as f:
        meta = json.load(f)
    patch = os.path.join(out, "patch.diff")
    demo_cmd = meta["demo_cmd"]
    # normalise: run the demo from the worktree
    demo_cmd = re.sub(r"^cd\s+\S+\s*&&\s*", "", demo_cmd.strip())
    demo_cmd = re.split(r"\s{2,}[(#]|\s+#|\s+\(also", demo_cmd)[0].strip()
    if "--offline" not in demo_cmd:
        demo_cmd = demo_cmd.replace("cargo test", "cargo test --offline").replace("cargo run", "cargo run --offline")
    # state 1: change applied (make sure it is)
    chk = run(["git", "apply", "--check", "-R", patch], wt)
    if chk.returncode != 0:
        a = run(["git", "apply", patch], wt)
        if a.returncode != 0:
            print("cannot establish the patched state:", a.stdout[-400:])
            return 2
    # the demo must not be part of the suite run (it is expected to fail): move test demos aside
    demo_files = [f for f in os.listdir(out) if f.endswith(".rs")]
    moved = []
    candidates = []
    for root, _dirs, files in os.walk(out):
        for f in files:
            if not f.endswith(".rs"):
                continue
            rel = os.path.relpath(os.path.join(root, f), out)
            candidates.append(rel)
            # a copy at the top level of seed_out usually lives in tests/ or examples/ (also of a member crate)
            for sub in ("tests", "examples", "astronimical_quantities/tests", "qty-macros/tests"):
                candidates.append(os.path.join(sub, f))
    for rel in candidates:
        pth = os.path.join(wt, rel)
        if os.path.exists(pth) and not pth.startswith(out) and pth not in moved:
            st = run(["git", "ls-files", "--error-unmatch", rel], wt)
            if st.returncode != 0:  # untracked = belongs to the demonstration
                shutil.move(pth, pth + ".aside")
                moved.append(pth)
    compiled, passed, failed = suite(wt)
    for pth in moved:
        shutil.move(pth + ".aside", pth)
    other_failed = [f for f in failed if not f.endswith("::ui")]
    demo_with = run(demo_cmd, wt, shell=True)
    # state 2: change reverted
    r = run(["git", "apply", "-R", patch], wt)
    if r.returncode != 0:
        print("cannot revert the patch:", r.stdout[-400:])
        return 2
    demo_without = run(demo_cmd, wt, shell=True)
    run(["git", "apply", patch], wt)
    confirmed = {
        "compiles_with_change": compiled,
        "suite_with_change": {"passed_incl_doctests": passed, "failed": failed, "survives": compiled and not other_failed},
        "demo_with_change": "fails" if demo_with.returncode != 0 else "passes",
        "demo_without_change": "passes" if demo_without.returncode == 0 else "fails",
        "demo_cmd": demo_cmd,
        "ran_in": wt,
    }
    ok = compiled and not other_failed and demo_with.returncode != 0 and demo_without.returncode == 0
    print(json.dumps(confirmed, indent=1))
    if not ok:
        print("NOT CONFIRMED")
        print(demo_with.stdout[-800:])
        print(demo_without.stdout[-800:])
        return 1
    dst = os.path.join(VERIF, "seeded", sid)
    os.makedirs(dst, exist_ok=True)
    shutil.copy(patch, os.path.join(dst, "patch.diff"))
    for root, _dirs, files in os.walk(out):
        for f in files:
            if root == out and f in ("patch.diff", "meta.json"):
                continue
            rel = os.path.relpath(os.path.join(root, f), out)
            os.makedirs(os.path.dirname(os.path.join(dst, rel)) or dst, exist_ok=True)
            shutil.copy(os.path.join(root, f), os.path.join(dst, rel))
    meta["confirmed"] = confirmed
    meta["origin"] = "independent sub-agent given only the property text and a scratch worktree; nothing from /verif"
    with open(os.path.join(dst, "meta.json"), "w", encoding="utf-8") as f:
        json.dump(meta, f, ensure_ascii=False, indent=1)
    print("CONFIRMED ->", dst)
    return 0


if __name__ == "__main__":
    sys.exit(main())
