"""Shared plumbing of the check driver: builds, evidence, known findings, verdict lines."""
import json
import os
import subprocess
import sys
import time

VERIF = os.path.dirname(os.path.dirname(os.path.abspath(__file__)))
BUILD = os.path.join(VERIF, "build")
HARNESS = os.path.join(VERIF, "harness")
EVIDENCE = os.path.join(VERIF, "evidence")
REPLAYS = os.path.join(VERIF, "replays")
REPO = "/repo"

EXIT_OK, EXIT_VIOLATION, EXIT_MACHINERY = 0, 1, 2


class Machinery(Exception):
    """The harness itself failed (never a verdict about the property)."""


def env_offline():
    env = dict(os.environ)
    env["CARGO_NET_OFFLINE"] = "true"
    env.setdefault("CARGO_TERM_COLOR", "never")
    return env


def split_variant(backend):
    """'f64' / 'dec' / 'f64-rel' / 'dec-rel' -> (amount back-end, cargo profile)"""
    if backend.endswith("-rel"):
        return backend[:-4], "rel"
    return backend, "dev"


def target_dir(backend):
    return os.path.join(BUILD, "target-" + backend)


def drive_bin(backend):
    be, profile = split_variant(backend)
    return os.path.join(target_dir(backend), "debug" if profile == "dev" else profile, "qv-drive")


def build_drive(backend, quiet=True):
    """(Re)build the E1 driver for one back-end (and cargo profile) from /repo's current working tree."""
    be, profile = split_variant(backend)
    feats = "astro" if be == "f64" else "dec"
    env = env_offline()
    env["CARGO_TARGET_DIR"] = target_dir(backend)
    cmd = ["cargo", "build", "--offline", "-p", "qv-drive", "--features", feats]
    if profile != "dev":
        cmd += ["--profile", profile]
    t0 = time.time()
    p = subprocess.run(cmd, cwd=HARNESS, env=env, stdout=subprocess.PIPE, stderr=subprocess.STDOUT, text=True)
    if p.returncode != 0:
        tail = "\n".join(l for l in p.stdout.splitlines() if not l.startswith("warning"))[-6000:]
        raise Machinery("building qv-drive (%s) against /repo failed:\n%s" % (backend, tail))
    if not quiet:
        print("built qv-drive[%s] in %.1fs" % (backend, time.time() - t0))
    return drive_bin(backend)


def build_drives(backends):
    """Build several back-ends concurrently (separate target dirs)."""
    import concurrent.futures as cf
    with cf.ThreadPoolExecutor(max_workers=len(backends)) as ex:
        futs = {b: ex.submit(build_drive, b) for b in backends}
        return {b: f.result() for b, f in futs.items()}


def run_drive(backend, prop, tier, block=None, threads=None, timeout=None):
    """Run the driver; returns its JSON report.  Exit 2 of the driver is a machinery failure."""
    os.makedirs(os.path.join(BUILD, "out"), exist_ok=True)
    out = os.path.join(BUILD, "out", "%s-%s-%s-%d.json" % (prop, backend, tier, os.getpid()))
    cmd = [drive_bin(backend), prop, "--tier", tier, "--model", os.path.join(BUILD, "model.json"), "--out", out]
    if block:
        cmd += ["--block", block]
    if threads:
        cmd += ["--threads", str(threads)]
    p = subprocess.run(cmd, cwd=HARNESS, stdout=subprocess.PIPE, stderr=subprocess.PIPE, text=True, timeout=timeout)
    if p.returncode not in (0, 1):
        raise Machinery("qv-drive %s (%s) exited %s:\n%s" % (prop, backend, p.returncode, (p.stderr or p.stdout)[-4000:]))
    with open(out, encoding="utf-8") as f:
        doc = json.load(f)
    os.unlink(out)
    return doc


def purity_scan():
    """Textual scan of the library sources for places where state could be carried between calls (statics, thread-locals,
    atomics, cells, locks).  Not a verdict: the result qualifies the assumption under which one evaluation per input
    covers every history and schedule; the depth-2 histories (props/history.rs) explore the assumption itself."""
    import re
    pat = re.compile(r"\bstatic\s+(mut\s+)?[A-Z_]|thread_local!|\bAtomic[A-Z]\w*|\b(Ref)?Cell\b|\bUnsafeCell\b|\bMutex\b|\bRwLock\b|\bOnce(Cell|Lock)?\b|lazy_static")
    hits, files = [], 0
    for root in ("src", "qty-macros/src", "astronimical_quantities/src"):
        for dp, _dn, fn in os.walk(os.path.join(REPO, root)):
            for f in sorted(fn):
                if not f.endswith(".rs"):
                    continue
                files += 1
                path = os.path.join(dp, f)
                with open(path, encoding="utf-8") as fh:
                    for no, line in enumerate(fh, 1):
                        code = line.split("//")[0]
                        if pat.search(code):
                            hits.append("%s:%d: %s" % (os.path.relpath(path, REPO), no, line.strip()[:100]))
    if hits:
        return ("state-bearing items in the library sources (%d files scanned): %s - one evaluation per input no longer covers every "
                "history / schedule by construction; the depth-2 histories and the concurrent block schedule are the guard" % (files, "; ".join(hits[:8])))
    return "no static / thread-local / atomic / cell / lock item in the %d library source files: results are functions of their arguments (explored further by the depth-2 histories)" % files


# ---------------------------------------------------------------------------
def load_known():
    path = os.path.join(VERIF, "known_findings.json")
    try:
        with open(path, encoding="utf-8") as f:
            return json.load(f).get("findings", [])
    except FileNotFoundError:
        return []


def classify(prop, violations):
    """Split violation records into (new, known) by the committed known-findings file.
    A record matches a finding when the property and the narrow key agree; 'fixed' entries suppress nothing."""
    known = [k for k in load_known() if k.get("property") == prop and k.get("status") == "known"]
    new, old = [], []
    for v in violations:
        # the same input class in the build without debug assertions ("-rel") is the same finding
        base_key = v["key"][:-4] if v["key"].endswith("-rel") else v["key"]
        hit = next((k for k in known if k.get("key") in (v["key"], base_key)), None)
        (old if hit else new).append((v, hit))
    return new, old


def write_replay(prop, v):
    os.makedirs(REPLAYS, exist_ok=True)
    safe = "".join(c if c.isalnum() or c in "-_." else "_" for c in v["key"])[:120]
    path = os.path.join(REPLAYS, "%s-%s.json" % (prop, safe))
    with open(path, "w", encoding="utf-8") as f:
        json.dump(v, f, ensure_ascii=False, indent=1)
    return path


def finish(prop, tier, level, coverage, assumptions, violations, t0, seed):
    """Write the evidence file, print verdict lines, return the exit code.
    `violations`: list of dicts with at least key, count, example (replayable description)."""
    new, old = classify(prop, violations)
    os.makedirs(EVIDENCE, exist_ok=True)
    n_viol = sum(v.get("count", 1) for v, _ in new)
    coverage = dict(coverage)
    coverage["known_findings_seen"] = [v["key"] for v, _ in old]
    coverage["violation_classes"] = {v["key"]: v.get("count", 1) for v, _ in new}
    ev = {
        "property_id": prop, "tier": tier, "seed": seed, "level": level,
        "coverage": coverage, "assumptions": assumptions,
        "wall_s": round(time.time() - t0, 3), "violations": n_viol,
    }
    with open(os.path.join(EVIDENCE, prop + ".json"), "w", encoding="utf-8") as f:
        json.dump(ev, f, ensure_ascii=False, indent=1)
        f.write("\n")
    for v, k in old:
        print("KNOWN-FINDING: property=%s %s [%s; %d case(s) this run]" % (prop, k.get("what", v["key"]), v["key"], v.get("count", 1)))
    for v, _ in new:
        path = write_replay(prop, v)
        print("VIOLATION property=%s replay=%s" % (prop, path))
        print("  class=%s cases=%d" % (v["key"], v.get("count", 1)))
        ex = v.get("example") or {}
        print("  example: %s" % json.dumps(ex.get("case", ex), ensure_ascii=False))
        if "observed" in ex:
            print("  observed: %s" % ex["observed"])
            print("  expected: %s" % ex["expected"])
    st = coverage.get("states"), coverage.get("transitions"), coverage.get("distinct_nontrivial")
    print("%s %s: states=%s transitions=%s nontrivial=%s violations=%d known=%d wall=%.1fs" % (
        prop, tier, st[0], st[1], st[2], n_viol, len(old), time.time() - t0))
    sys.stdout.flush()
    return EXIT_VIOLATION if new else EXIT_OK
